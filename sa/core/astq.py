"""Small AST query helpers shared by the property modules."""

from __future__ import annotations

import ast
from typing import Dict, Iterable, Iterator, List, Optional, Set, Tuple
from dataclasses import dataclass

from .program import FunctionInfo, Program, ancestors, attr_chain, norm, walk_function


def names_in(node: ast.AST) -> Set[str]:
    return {n.id for n in ast.walk(node) if isinstance(n, ast.Name)}


def loads_in(node: ast.AST) -> Set[str]:
    return {n.id for n in ast.walk(node) if isinstance(n, ast.Name) and isinstance(n.ctx, ast.Load)}


def target_names(t: ast.AST) -> Set[str]:
    """Plain names bound by an assignment target (tuple unpacking included)."""
    out: Set[str] = set()
    if isinstance(t, ast.Name):
        out.add(t.id)
    elif isinstance(t, (ast.Tuple, ast.List)):
        for e in t.elts:
            out |= target_names(e)
    elif isinstance(t, ast.Starred):
        out |= target_names(t.value)
    return out


def stmt_targets(st: ast.stmt) -> List[ast.AST]:
    if isinstance(st, ast.Assign):
        return list(st.targets)
    if isinstance(st, (ast.AugAssign, ast.AnnAssign)):
        return [st.target]
    if isinstance(st, (ast.For, ast.AsyncFor)):
        return [st.target]
    if isinstance(st, (ast.With, ast.AsyncWith)):
        return [i.optional_vars for i in st.items if i.optional_vars is not None]
    return []


def assignments_to(fn: ast.AST, name: str) -> List[ast.stmt]:
    out = []
    for n in walk_function(fn):
        if isinstance(n, ast.stmt):
            for t in stmt_targets(n):
                if name in target_names(t):
                    out.append(n)
    return out


def method_calls(fn: ast.AST, attr: str) -> List[ast.Call]:
    """Calls of the form <expr>.<attr>(...)."""
    return [
        n
        for n in walk_function(fn)
        if isinstance(n, ast.Call) and isinstance(n.func, ast.Attribute) and n.func.attr == attr
    ]


def calls_named(prog: Program, fi: FunctionInfo, *quals: str) -> List[ast.Call]:
    return [c for c, q in prog.calls_in(fi) if q in quals]


def enclosing_loops(node: ast.AST, stop: Optional[ast.AST] = None) -> List[ast.AST]:
    out = []
    for a in ancestors(node):
        if a is stop:
            break
        if isinstance(a, (ast.FunctionDef, ast.AsyncFunctionDef, ast.Lambda)):
            break
        if isinstance(a, (ast.For, ast.AsyncFor, ast.While)):
            out.append(a)
    return out


def in_body_of(node: ast.AST, comp: ast.AST, field: str = "body") -> bool:
    """Is `node` inside comp.<field> (e.g. the body of a loop, the orelse of an if)?"""
    body = getattr(comp, field, [])
    ids = set()
    for st in body:
        for n in ast.walk(st):
            ids.add(id(n))
    return id(node) in ids


def dict_literal_get(d: ast.AST, key: str) -> Optional[ast.AST]:
    if isinstance(d, ast.Dict):
        for k, v in zip(d.keys, d.values):
            if isinstance(k, ast.Constant) and k.value == key:
                return v
    return None


def dep_closure(stmts: Iterable[ast.stmt], seeds: Set[str]) -> Set[str]:
    """Names data-dependent on `seeds` through assignments in `stmts` (flow-insensitive closure)."""
    dep = set(seeds)
    changed = True
    flat = [n for st in stmts for n in ast.walk(st) if isinstance(n, ast.stmt)]
    while changed:
        changed = False
        for st in flat:
            rhs: Optional[ast.AST] = None
            if isinstance(st, ast.Assign):
                rhs = st.value
            elif isinstance(st, ast.AugAssign):
                rhs = st.value
            elif isinstance(st, ast.AnnAssign):
                rhs = st.value
            elif isinstance(st, (ast.For, ast.AsyncFor)):
                rhs = st.iter
            if rhs is None:
                continue
            if loads_in(rhs) & dep:
                for t in stmt_targets(st):
                    for nm in target_names(t):
                        if nm not in dep:
                            dep.add(nm)
                            changed = True
                    # x[k] = v / x.a = v makes the container dependent as well
                    base = t
                    while isinstance(base, (ast.Subscript, ast.Attribute)):
                        base = base.value
                    if isinstance(base, ast.Name) and base.id not in dep and not isinstance(t, ast.Name):
                        dep.add(base.id)
                        changed = True
    return dep


def is_none_test(test: ast.AST) -> Optional[ast.AST]:
    """`X is None` / `X == None` / `None is X` -> X."""
    if isinstance(test, ast.Compare) and len(test.ops) == 1 and isinstance(test.ops[0], (ast.Is, ast.Eq)):
        l, r = test.left, test.comparators[0]
        if isinstance(r, ast.Constant) and r.value is None:
            return l
        if isinstance(l, ast.Constant) and l.value is None:
            return r
    return None


def const_value(node: ast.AST):
    if isinstance(node, ast.Constant):
        return node.value
    if isinstance(node, ast.UnaryOp) and isinstance(node.op, ast.USub) and isinstance(node.operand, ast.Constant):
        return -node.operand.value
    return ...


def call_arg(call: ast.Call, pos: int, kw: str) -> Optional[ast.AST]:
    for k in call.keywords:
        if k.arg == kw:
            return k.value
    if pos is not None and pos < len(call.args) and not any(isinstance(a, ast.Starred) for a in call.args[: pos + 1]):
        return call.args[pos]
    return None


def bind_args(fi: FunctionInfo, call: ast.Call, skip_self: bool = False) -> Dict[str, ast.AST]:
    """Bind call arguments to the callee's parameter names (no *args/**kwargs expansion)."""
    params = fi.pos_params
    if skip_self and params and params[0] in ("self", "cls"):
        params = params[1:]
    out: Dict[str, ast.AST] = {}
    for i, a in enumerate(call.args):
        if isinstance(a, ast.Starred):
            break
        if i < len(params):
            out[params[i]] = a
    for k in call.keywords:
        if k.arg is not None:
            out[k.arg] = k.value
    return out


def deref(fn: ast.AST, node: Optional[ast.AST], depth: int = 3) -> Optional[ast.AST]:
    """Follow a plain local name to the expression it was assigned (single assignment only)."""
    while node is not None and isinstance(node, ast.Name) and depth > 0:
        defs = assignments_to(fn, node.id)
        if len(defs) != 1 or not isinstance(defs[0], ast.Assign) or len(defs[0].targets) != 1 \
                or not isinstance(defs[0].targets[0], ast.Name):
            return node
        node = defs[0].value
        depth -= 1
    return node


def attr_base(node: ast.AST) -> Optional[str]:
    """Name at the base of a subscript/attribute chain."""
    cur = node
    while isinstance(cur, (ast.Subscript, ast.Attribute)):
        cur = cur.value
    return cur.id if isinstance(cur, ast.Name) else None


# ---------------------------------------------------------------------------------------------------------------
# Form-insensitive helpers: rules describe WHAT is computed, these absorb HOW it is spelled
# (named intermediates, loop forms, comprehension vs append loop).
# ---------------------------------------------------------------------------------------------------------------
def _single_defs(fn: ast.AST) -> Dict[str, ast.AST]:
    """name -> value for locals bound exactly once by a plain `name = value` (or tuple element of `a, b = x, y`)."""
    cache = getattr(fn, "_single_defs", None)
    if cache is not None:
        return cache
    counts: Dict[str, int] = {}
    vals: Dict[str, ast.AST] = {}
    params = set()
    if isinstance(fn, (ast.FunctionDef, ast.AsyncFunctionDef)):
        a = fn.args
        params = {x.arg for x in a.posonlyargs + a.args + a.kwonlyargs}
    for st in walk_function(fn):
        if isinstance(st, ast.Assign):
            for t in st.targets:
                if isinstance(t, ast.Name):
                    counts[t.id] = counts.get(t.id, 0) + 1
                    vals[t.id] = st.value
                elif isinstance(t, (ast.Tuple, ast.List)):
                    if isinstance(st.value, (ast.Tuple, ast.List)) and len(st.value.elts) == len(t.elts):
                        for e, v in zip(t.elts, st.value.elts):
                            if isinstance(e, ast.Name):
                                counts[e.id] = counts.get(e.id, 0) + 1
                                vals[e.id] = v
                            else:
                                for n in target_names(e):
                                    counts[n] = counts.get(n, 0) + 2
                    elif isinstance(st.value, ast.Attribute) and st.value.attr == "shape" and all(isinstance(e, ast.Name) for e in t.elts):
                        for k, e in enumerate(t.elts):
                            counts[e.id] = counts.get(e.id, 0) + 1
                            vals[e.id] = ast.Subscript(value=st.value, slice=ast.Constant(value=k), ctx=ast.Load())
                    else:
                        for n in target_names(t):
                            counts[n] = counts.get(n, 0) + 2
        elif isinstance(st, (ast.AugAssign, ast.AnnAssign)):
            for n in target_names(st.target):
                counts[n] = counts.get(n, 0) + (1 if isinstance(st, ast.AnnAssign) and st.value is not None else 2)
                if isinstance(st, ast.AnnAssign) and st.value is not None and isinstance(st.target, ast.Name):
                    vals[n] = st.value
        elif isinstance(st, (ast.For, ast.AsyncFor)):
            for n in target_names(st.target):
                counts[n] = counts.get(n, 0) + 2
        elif isinstance(st, (ast.With, ast.AsyncWith)):
            for it in st.items:
                if it.optional_vars is not None:
                    for n in target_names(it.optional_vars):
                        counts[n] = counts.get(n, 0) + 2
        elif isinstance(st, ast.NamedExpr):
            counts[st.target.id] = counts.get(st.target.id, 0) + 2
        elif isinstance(st, ast.comprehension):
            for n in target_names(st.target):
                counts[n] = counts.get(n, 0) + 2
    def _accumulator(v: ast.AST) -> bool:
        """An empty container literal: the name denotes an object that is filled later, not the value `[]`."""
        return (isinstance(v, (ast.List, ast.Set)) and not v.elts) or (isinstance(v, ast.Dict) and not v.keys) or (
            isinstance(v, ast.Call) and not v.args and not v.keywords and norm(v.func) in ("list", "dict", "set"))

    out = {n: v for n, v in vals.items() if counts.get(n) == 1 and n not in params and not _accumulator(v)}
    try:
        fn._single_defs = out  # type: ignore[attr-defined]
    except Exception:
        pass
    return out


class _Expander(ast.NodeTransformer):
    def __init__(self, defs: Dict[str, ast.AST], depth: int, stop: Set[str]):
        self.defs, self.depth, self.stop = defs, depth, stop

    def visit_Name(self, node: ast.Name):
        if isinstance(node.ctx, ast.Load) and node.id in self.defs and node.id not in self.stop and self.depth > 0:
            from .inline import clone

            sub = _Expander(self.defs, self.depth - 1, self.stop | {node.id})
            return sub.visit(clone(self.defs[node.id]))
        return node


def expand(fn: ast.AST, expr: Optional[ast.AST], depth: int = 6, keep: Iterable[str] = ()) -> Optional[ast.AST]:
    """`expr` with every single-assignment local replaced by its defining expression (recursively): the form the
    expression would have without named intermediates.  Names in `keep` are left alone."""
    if expr is None:
        return None
    from .inline import clone

    return _UnrollComps().visit(_Expander(_single_defs(fn), depth, set(keep)).visit(clone(expr)))


class _SubstNames(ast.NodeTransformer):
    def __init__(self, m: Dict[str, ast.AST]):
        self.m = m

    def visit_Name(self, node: ast.Name):
        if isinstance(node.ctx, ast.Load) and node.id in self.m:
            from .inline import clone

            return clone(self.m[node.id])
        return node


class _UnrollComps(ast.NodeTransformer):
    """[f(e) for e in (A, B, C)] -> [f(A), f(B), f(C)]: a list comprehension over a literal sequence is that list."""

    def visit_Call(self, node: ast.Call):
        # tuple(f(e) for e in (A, B))  ->  (f(A), f(B));  list(...) likewise
        self.generic_visit(node)
        if isinstance(node.func, ast.Name) and node.func.id in ("tuple", "list") and len(node.args) == 1 and not node.keywords and isinstance(node.args[0], (ast.GeneratorExp, ast.List)):
            a = node.args[0]
            if isinstance(a, ast.GeneratorExp):
                a = self.visit_ListComp(ast.copy_location(ast.ListComp(elt=a.elt, generators=a.generators), a))
            if isinstance(a, ast.List):
                return ast.copy_location((ast.Tuple if node.func.id == "tuple" else ast.List)(elts=a.elts, ctx=ast.Load()), node)
        return node

    def visit_ListComp(self, node: ast.ListComp):
        self.generic_visit(node)
        if len(node.generators) != 1 or node.generators[0].ifs or not isinstance(node.generators[0].iter, (ast.Tuple, ast.List)):
            return node
        g = node.generators[0]
        from .inline import clone

        elts = []
        for item in g.iter.elts:
            if isinstance(g.target, ast.Name):
                m = {g.target.id: item}
            elif isinstance(g.target, (ast.Tuple, ast.List)) and isinstance(item, (ast.Tuple, ast.List)) and len(item.elts) == len(g.target.elts) \
                    and all(isinstance(t, ast.Name) for t in g.target.elts):
                m = {t.id: e for t, e in zip(g.target.elts, item.elts)}
            else:
                return node
            elts.append(_SubstNames(m).visit(clone(node.elt)))
        return ast.copy_location(ast.List(elts=elts, ctx=ast.Load()), node)


class _FlatSubs(ast.NodeTransformer):
    """x[0][3, 1] / x[0][3][1] -> x[0, 3, 1]: chained indexing by integer constants is one multi-axis index."""

    def visit_Subscript(self, node: ast.Subscript):
        self.generic_visit(node)
        inner = node.value
        if isinstance(inner, ast.Subscript):
            ii = inner.slice.elts if isinstance(inner.slice, ast.Tuple) else [inner.slice]
            oi = node.slice.elts if isinstance(node.slice, ast.Tuple) else [node.slice]
            if all(isinstance(i, ast.Constant) and isinstance(i.value, int) and not isinstance(i.value, bool) for i in ii):
                return ast.copy_location(ast.Subscript(value=inner.value, slice=ast.Tuple(elts=list(ii) + list(oi), ctx=ast.Load()), ctx=node.ctx), node)
        return node


class _FoldLiteralIndex(ast.NodeTransformer):
    """(a, b)[1] -> b: a constant index into a tuple / list display selects that element."""

    def visit_Subscript(self, node: ast.Subscript):
        self.generic_visit(node)
        v, i = node.value, node.slice
        if isinstance(v, (ast.Tuple, ast.List)) and isinstance(i, ast.Constant) and isinstance(i.value, int) and not isinstance(i.value, bool) \
                and -len(v.elts) <= i.value < len(v.elts) and not any(isinstance(x, ast.Starred) for x in v.elts):
            return v.elts[i.value]
        return node


def fold_literal_index(e: Optional[ast.AST]) -> Optional[ast.AST]:
    if e is None:
        return None
    from .inline import clone

    return _FoldLiteralIndex().visit(clone(e))


def flat_subs(e: Optional[ast.AST]) -> Optional[ast.AST]:
    if e is None:
        return None
    from .inline import clone

    return _FlatSubs().visit(clone(e))


def xnorm(fn: ast.AST, expr: Optional[ast.AST], keep: Iterable[str] = ()) -> str:
    """Normalised text of the expanded expression (chained constant indexing flattened)."""
    e = expand(fn, expr, keep=keep)
    return norm(_FlatSubs().visit(e)) if e is not None else ""


@dataclass
class LoopElems:
    seq: ast.AST                 # the sequence iterated
    index: Optional[str]         # loop index name (range / enumerate forms)
    elem: Optional[str]          # element name (`for e in S`, enumerate)
    extra: List[Tuple[ast.AST, str]]  # further (sequence, element name) pairs of a zip

    def is_elem(self, e: ast.AST, of: Optional[ast.AST] = None) -> bool:
        """Does expression `e` denote the current element of the sequence (`of` defaults to self.seq)?  Accepts the bare
        element name, S[i], S[i, :], S[i, ...], S[i:i + 1], and those wrapped in unsqueeze(0)/[None]."""
        seq = norm(of if of is not None else self.seq)
        if isinstance(e, ast.Call) and isinstance(e.func, ast.Attribute) and e.func.attr in ("unsqueeze", "clone", "float", "to") :
            return self.is_elem(e.func.value, of)
        if isinstance(e, ast.Call) and norm(e.func) in ("torch.unsqueeze", "np.expand_dims") and e.args:
            return self.is_elem(e.args[0], of)
        if isinstance(e, ast.Name):
            if of is None or norm(of) == norm(self.seq):
                return e.id == self.elem
            return any(e.id == nm and norm(s) == seq for s, nm in self.extra)
        if isinstance(e, ast.Subscript) and norm(e.value) == seq and self.index is not None:
            s = e.slice
            first = s.elts[0] if isinstance(s, ast.Tuple) else s
            rest = s.elts[1:] if isinstance(s, ast.Tuple) else []
            if not all(isinstance(r, ast.Slice) and r.lower is None and r.upper is None or (isinstance(r, ast.Constant) and r.value is Ellipsis) for r in rest):
                return False
            if isinstance(first, ast.Name) and first.id == self.index:
                return True
            if isinstance(first, ast.Slice) and first.lower is not None and first.upper is not None and norm(first.lower) == self.index \
                    and norm(first.upper).replace(" ", "") in (f"{self.index}+1", f"1+{self.index}") and first.step is None:
                return True
        return False


def loop_elems(loop: ast.AST, fn: Optional[ast.AST] = None) -> Optional[LoopElems]:
    """Describe what a for-loop (or comprehension generator) iterates: for e in S / for i, e in enumerate(S) /
    for i in range(len(S)) | range(S.shape[0]) | range(S.size(0)) / for a, b in zip(S, T)."""
    it, tg = loop.iter, loop.target
    if isinstance(it, ast.Call) and norm(it.func) == "enumerate" and it.args and isinstance(tg, ast.Tuple) and len(tg.elts) == 2 and isinstance(tg.elts[0], ast.Name):
        inner = tg.elts[1]
        if isinstance(it.args[0], ast.Call) and norm(it.args[0].func) == "zip" and isinstance(inner, ast.Tuple):
            seqs = it.args[0].args
            names = [e.id if isinstance(e, ast.Name) else None for e in inner.elts]
            if len(seqs) == len(names) and seqs:
                return LoopElems(seqs[0], tg.elts[0].id, names[0], [(s, n) for s, n in zip(seqs[1:], names[1:]) if n])
        return LoopElems(it.args[0], tg.elts[0].id, inner.id if isinstance(inner, ast.Name) else None, [])
    if isinstance(it, ast.Call) and norm(it.func) == "zip" and isinstance(tg, ast.Tuple) and len(it.args) == len(tg.elts) and it.args:
        names = [e.id if isinstance(e, ast.Name) else None for e in tg.elts]
        return LoopElems(it.args[0], None, names[0], [(s, n) for s, n in zip(it.args[1:], names[1:]) if n])
    if isinstance(it, ast.Call) and norm(it.func) == "range" and len(it.args) == 1 and isinstance(tg, ast.Name):
        n = it.args[0]
        if fn is not None:
            n = expand(fn, n, depth=2)
        seq = None
        if isinstance(n, ast.Call) and norm(n.func) == "len" and n.args:
            seq = n.args[0]
        elif isinstance(n, ast.Subscript) and isinstance(n.value, ast.Attribute) and n.value.attr == "shape" and const_value(n.slice) == 0:
            seq = n.value.value
        elif isinstance(n, ast.Call) and isinstance(n.func, ast.Attribute) and n.func.attr == "size" and n.args and const_value(n.args[0]) == 0:
            seq = n.func.value
        if seq is not None:
            return LoopElems(seq, tg.id, None, [])
        if fn is not None:
            # range(N) where a sequence indexed by the loop variable was made with S = X.reshape(N, ...) / X.view(N, ...)
            want = xnorm(fn, it.args[0])
            for sub in ast.walk(loop):
                if not (isinstance(sub, ast.Subscript) and isinstance(sub.value, ast.Name) and tg.id in names_in(sub.slice)):
                    continue
                d = _single_defs(fn).get(sub.value.id)
                lead = None
                if isinstance(d, ast.Call) and isinstance(d.func, ast.Attribute) and d.func.attr in ("reshape", "view") and d.args:
                    a0 = d.args[0]
                    lead = a0.elts[0] if isinstance(a0, (ast.Tuple, ast.List)) and a0.elts else a0
                elif isinstance(d, ast.Call) and norm(d.func) in ("torch.reshape", "np.reshape") and len(d.args) >= 2 and isinstance(d.args[1], (ast.Tuple, ast.List)) and d.args[1].elts:
                    lead = d.args[1].elts[0]
                if lead is not None and xnorm(fn, lead) == want:
                    return LoopElems(ast.copy_location(ast.Name(sub.value.id, ast.Load()), sub), tg.id, None, [])
        return None
    if isinstance(tg, ast.Name):
        return LoopElems(it, None, tg.id, [])
    return None


def _guard_clause_conds(node: ast.AST, loop: Optional[ast.AST]) -> List[ast.AST]:
    """Conditions that hold at `node` because of guard clauses of the innermost loop body it sits in: a preceding sibling
    `if T: continue` (no else, the body always continues) contributes `not T` (a double negation is removed)."""
    out: List[ast.AST] = []
    if loop is None:
        return out
    cur = node
    while cur is not None and cur is not loop:
        par = getattr(cur, "_parent", None)
        for fld in ("body", "orelse"):
            blk = getattr(par, fld, None) if par is not None else None
            if isinstance(blk, list) and any(cur is x for x in blk):
                for sib in blk[: [i for i, x in enumerate(blk) if x is cur][0]]:
                    if isinstance(sib, ast.If) and not sib.orelse and sib.body and isinstance(sib.body[-1], ast.Continue):
                        t = sib.test
                        if isinstance(t, ast.UnaryOp) and isinstance(t.op, ast.Not):
                            out.append(t.operand)
                        else:
                            out.append(ast.copy_location(ast.UnaryOp(op=ast.Not(), operand=t), t))
        cur = par
    return out


@dataclass
class ListBuild:
    name: str
    elt: ast.AST                       # appended / comprehension element expression
    gens: List[ast.AST]                # the loops (For nodes or comprehension generators), outermost first
    conds: List[ast.AST]               # conditions guarding the element
    site: ast.AST                      # the append call or the comprehension


def list_builds(fn: ast.AST, name: str) -> List[ListBuild]:
    """All the ways the list `name` receives elements: `name = [elt for ... if c]` and `name.append(elt)` inside loops."""
    out: List[ListBuild] = []
    for st in walk_function(fn):
        if isinstance(st, ast.Assign) and any(norm(t) == name for t in st.targets) and isinstance(st.value, ast.ListComp):
            c = st.value
            out.append(ListBuild(name, c.elt, list(c.generators), [i for g in c.generators for i in g.ifs], c))
        elif isinstance(st, ast.Assign) and any(norm(t) == name for t in st.targets) and isinstance(st.value, ast.Call) and norm(st.value.func) == "list" and len(st.value.args) == 1 \
                and isinstance(st.value.args[0], ast.Call) and norm(st.value.args[0].func) == "map" and len(st.value.args[0].args) == 2:
            # list(map(f, S))  ==  [f(_x) for _x in S]
            f_, seq_ = st.value.args[0].args
            var = ast.Name(id="_x", ctx=ast.Load())
            gen = ast.comprehension(target=ast.Name(id="_x", ctx=ast.Store()), iter=seq_, ifs=[], is_async=0)
            elt = ast.copy_location(ast.Call(func=f_, args=[var], keywords=[]), st.value)
            comp = ast.copy_location(ast.ListComp(elt=elt, generators=[gen]), st.value)
            comp._parent = st  # type: ignore[attr-defined]
            out.append(ListBuild(name, elt, [gen], [], comp))
        elif isinstance(st, ast.Call) and isinstance(st.func, ast.Attribute) and st.func.attr == "extend" and norm(st.func.value) == name and st.args \
                and isinstance(st.args[0], (ast.GeneratorExp, ast.ListComp)):
            c = st.args[0]
            outer = list(reversed(enclosing_loops(st)))
            conds = [a.test for a in ancestors(st) if isinstance(a, ast.If) and outer and in_body_of(a, outer[0])]
            out.append(ListBuild(name, c.elt, outer + list(c.generators), conds + [i for g in c.generators for i in g.ifs], st))
        elif isinstance(st, ast.Call) and isinstance(st.func, ast.Attribute) and st.func.attr == "append" and norm(st.func.value) == name and st.args:
            loops = list(reversed(enclosing_loops(st)))
            conds = [a.test for a in ancestors(st) if isinstance(a, ast.If) and (not loops or in_body_of(a, loops[0]) or a in loops)]
            conds += _guard_clause_conds(st, loops[-1] if loops else None)
            out.append(ListBuild(name, st.args[0], loops, conds, st))
    return out


@dataclass
class Record:
    fields: Dict[str, ast.AST]      # constant key -> value expression
    fresh: bool                     # a new dict object is created in every iteration
    sink: Optional[ast.Call]        # the `.append(record)` / `yield` site, if any
    holder: Optional[str]           # name of the dict variable, if it has one


def dict_records(scope: ast.AST) -> List[Record]:
    """Dict-shaped records built inside `scope` (typically a loop): `d = {}; d[k] = v; xs.append(d)`,
    `d = {k: v}; xs.append(d)` and `xs.append({k: v})` are the same thing."""
    out: List[Record] = []
    body_nodes = [n for st in getattr(scope, "body", []) for n in ast.walk(st)]
    appends = [n for n in body_nodes if isinstance(n, ast.Call) and isinstance(n.func, ast.Attribute) and n.func.attr == "append" and n.args]
    seen_holders: Set[str] = set()
    for c in appends:
        a = c.args[0]
        if isinstance(a, ast.Dict):
            out.append(Record({k.value: v for k, v in zip(a.keys, a.values) if isinstance(k, ast.Constant)}, True, c, None))
        elif isinstance(a, ast.Name):
            h = a.id
            inits = [n for n in body_nodes if isinstance(n, ast.Assign) and any(norm(t) == h for t in n.targets)
                     and (isinstance(n.value, ast.Dict) or (isinstance(n.value, ast.Call) and norm(n.value.func) == "dict"))]
            stores = [n for n in body_nodes if isinstance(n, ast.Assign) and isinstance(n.targets[0], ast.Subscript) and norm(n.targets[0].value) == h
                      and isinstance(n.targets[0].slice, ast.Constant)]
            if not inits and not stores:
                continue
            fields: Dict[str, ast.AST] = {}
            for i in inits:
                if isinstance(i.value, ast.Dict):
                    fields.update({k.value: v for k, v in zip(i.value.keys, i.value.values) if isinstance(k, ast.Constant)})
                else:
                    fields.update({k.arg: k.value for k in i.value.keywords if k.arg})
            for s in stores:
                fields[s.targets[0].slice.value] = s.value
            seen_holders.add(h)
            out.append(Record(fields, len(inits) == 1, c, h))
    return out


# ------------------------------------------------------------------ if/else joins as conditional expressions
def phi_defs(fn: ast.AST) -> Dict[str, ast.IfExp]:
    """Locals bound exactly twice, once in each arm of the same `if`: name -> IfExp(test, then-value, else-value)."""
    cache = getattr(fn, "_phi_defs", None)
    if cache is not None:
        return cache
    sites: Dict[str, List[Tuple[ast.stmt, ast.AST]]] = {}   # name -> [(statement, value bound)]
    other: Dict[str, int] = {}
    for st in walk_function(fn):
        if isinstance(st, ast.Assign) and len(st.targets) == 1 and isinstance(st.targets[0], ast.Name):
            sites.setdefault(st.targets[0].id, []).append((st, st.value))
        elif isinstance(st, ast.Assign) and len(st.targets) == 1 and isinstance(st.targets[0], (ast.Tuple, ast.List)) and isinstance(st.value, (ast.Tuple, ast.List)) \
                and len(st.targets[0].elts) == len(st.value.elts) and all(isinstance(e, ast.Name) for e in st.targets[0].elts) \
                and not ({e.id for e in st.targets[0].elts} & names_in(st.value)):
            for e, v in zip(st.targets[0].elts, st.value.elts):   # a, b = x, y  (no element reads a or b)
                sites.setdefault(e.id, []).append((st, v))
        elif isinstance(st, (ast.Assign, ast.AugAssign, ast.AnnAssign, ast.For, ast.AsyncFor)):
            tg = st.targets if isinstance(st, ast.Assign) else [st.target]
            for t in tg:
                for n in target_names(t):
                    other[n] = other.get(n, 0) + 1
    out: Dict[str, ast.IfExp] = {}
    for name, defs in sites.items():
        if len(defs) != 2 or other.get(name):
            continue
        (a, va), (b, vb) = defs
        pa, pb = getattr(a, "_parent", None), getattr(b, "_parent", None)
        if pa is pb and isinstance(pa, ast.If) and ((a in pa.body and b in pa.orelse) or (b in pa.body and a in pa.orelse)):
            t, e = (va, vb) if a in pa.body else (vb, va)
            out[name] = ast.IfExp(test=pa.test, body=t, orelse=e)
    try:
        fn._phi_defs = out  # type: ignore[attr-defined]
    except Exception:
        pass
    return out


def expand_phi(fn: ast.AST, expr: Optional[ast.AST], depth: int = 8, keep: Iterable[str] = ()) -> Optional[ast.AST]:
    """Like expand(), and names joined by an if/else become conditional expressions."""
    if expr is None:
        return None
    from .inline import clone

    defs = dict(_single_defs(fn))
    defs.update(phi_defs(fn))
    return _Expander(defs, depth, set(keep)).visit(clone(expr))


class _Choose(ast.NodeTransformer):
    def __init__(self, choice: Dict[str, bool]):
        self.choice = choice

    def visit_IfExp(self, node: ast.IfExp):
        k = norm(node.test)
        if k in self.choice:
            return self.visit(node.body if self.choice[k] else node.orelse)
        return self.generic_visit(node)


def cases(expr: ast.AST, limit: int = 16) -> List[Tuple[Dict[str, bool], ast.AST]]:
    """Resolve the conditional expressions of `expr` consistently (equal tests take the same arm)."""
    from .inline import clone

    tests: List[str] = []
    for n in ast.walk(expr):
        if isinstance(n, ast.IfExp) and norm(n.test) not in tests:
            tests.append(norm(n.test))
    if not tests or 2 ** len(tests) > limit:
        return [({}, expr)]
    out = []
    for mask in range(2 ** len(tests)):
        ch = {t: bool(mask >> i & 1) for i, t in enumerate(tests)}
        e = _Choose(ch).visit(clone(expr))
        # nested tests that only appear under one arm may remain unresolved or vanish: keep distinct results only
        out.append((ch, e))
    uniq, seen = [], set()
    for ch, e in out:
        k = norm(e)
        if k not in seen:
            seen.add(k)
            uniq.append((ch, e))
    return uniq


def same_product(e: ast.AST, a: str, b: str) -> bool:
    """Is `e` the product a*b in either order (normalised operand text)?"""
    return isinstance(e, ast.BinOp) and isinstance(e.op, ast.Mult) and {norm(e.left), norm(e.right)} == {a, b} and (a != b or norm(e.left) == norm(e.right))


# ------------------------------------------------------------------ flow-sensitive expansion (re-bound names)
def _block_chain(node: ast.AST) -> List[Tuple[ast.AST, str]]:
    """(compound statement, field) pairs enclosing `node`, innermost first, up to the function."""
    out = []
    child = node
    for a in ancestors(node):
        if isinstance(a, (ast.FunctionDef, ast.AsyncFunctionDef, ast.Lambda)):
            out.append((a, "body"))
            break
        for fld in ("body", "orelse", "finalbody", "handlers"):
            blk = getattr(a, fld, None)
            if isinstance(blk, list) and any(child is x for x in blk):
                out.append((a, fld))
        child = a
    return out


def reaching_def(fn: ast.AST, name: str, at: ast.AST, unpack_calls: bool = False) -> Optional[ast.Assign]:
    """The assignment `name = value` that certainly reaches statement `at`: the last binding of `name` before `at`,
    provided it lies in a block enclosing `at` (so it dominates it) and is a plain single-target assignment.  Loops
    enclosing `at` must not re-bind the name after `at` (the value of a later iteration would reach it too)."""
    at_stmt = at
    while at_stmt is not None and not isinstance(at_stmt, ast.stmt):
        at_stmt = getattr(at_stmt, "_parent", None)
    if at_stmt is None:
        return None
    binds = []
    for st in walk_function(fn):
        if isinstance(st, (ast.Assign, ast.AugAssign, ast.AnnAssign, ast.For, ast.AsyncFor, ast.With, ast.AsyncWith, ast.NamedExpr)):
            if isinstance(st, ast.Assign):
                tg = st.targets
            elif isinstance(st, (ast.With, ast.AsyncWith)):
                tg = [i.optional_vars for i in st.items if i.optional_vars is not None]
            else:
                tg = [st.target]
            if any(name in target_names(t) for t in tg):
                binds.append(st)
    if not binds:
        return None
    chain = _block_chain(at_stmt)
    enclosing = {id(a) for a, _ in chain}
    loops = [a for a, _ in chain if isinstance(a, (ast.For, ast.AsyncFor, ast.While))]
    before = [b for b in binds if getattr(b, "lineno", 0) < at_stmt.lineno or (b is at_stmt and False)]
    after_in_loop = [b for b in binds if getattr(b, "lineno", 0) >= at_stmt.lineno and b is not at_stmt and any(in_body_of(b, lp) for lp in loops)]
    # the statement itself may re-bind the name (x = f(x)): its own right-hand side sees the earlier binding
    if not before:
        return None
    last = max(before, key=lambda b: (b.lineno, getattr(b, "col_offset", 0)))
    if isinstance(last, ast.Assign) and len(last.targets) == 1 and isinstance(last.targets[0], (ast.Tuple, ast.List)) \
            and all(isinstance(e, ast.Name) for e in last.targets[0].elts):
        # a, b, c = X.shape / X.size()  ->  a = X.shape[0] ... ;  a, b = u, v  ->  a = u
        names = [e.id for e in last.targets[0].elts]
        k = names.index(name)
        v = last.value
        synth = None
        if isinstance(v, ast.Attribute) and v.attr == "shape":
            synth = ast.Subscript(value=v, slice=ast.Constant(value=k), ctx=ast.Load())
        elif isinstance(v, ast.Call) and isinstance(v.func, ast.Attribute) and v.func.attr == "size" and not v.args:
            synth = ast.Subscript(value=ast.Attribute(value=v.func.value, attr="shape", ctx=ast.Load()), slice=ast.Constant(value=k), ctx=ast.Load())
        elif isinstance(v, (ast.Tuple, ast.List)) and len(v.elts) == len(names):
            synth = v.elts[k]
        elif isinstance(v, ast.Call) and unpack_calls:
            synth = ast.Subscript(value=v, slice=ast.Constant(value=k), ctx=ast.Load())
        elif isinstance(v, ast.Subscript):
            synth = ast.Subscript(value=v, slice=ast.Constant(value=k), ctx=ast.Load())   # a, b = X.shape[-2:]  ->  a = X.shape[-2:][0]
        elif isinstance(v, ast.Name) and v.id != name:
            # a, b = pair  with  pair = (u, w) / pair = f(...)
            inner = reaching_def(fn, v.id, last, unpack_calls)
            iv = inner.value if inner is not None else None
            if isinstance(iv, (ast.Tuple, ast.List)) and len(iv.elts) == len(names):
                synth = iv.elts[k]
            elif isinstance(iv, ast.Call) and unpack_calls:
                synth = ast.Subscript(value=iv, slice=ast.Constant(value=k), ctx=ast.Load())
        if synth is None:
            return None
        fake = ast.Assign(targets=[ast.Name(id=name, ctx=ast.Store())], value=synth, lineno=last.lineno, col_offset=last.col_offset)
        fake._parent = getattr(last, "_parent", None)  # type: ignore[attr-defined]
        fake._orig = last  # type: ignore[attr-defined]
        last_for_block = last
        last = fake
    else:
        last_for_block = last
    if not (isinstance(last, ast.Assign) and len(last.targets) == 1 and isinstance(last.targets[0], ast.Name)):
        return None
    par = getattr(last, "_parent", None)
    if id(par) not in enclosing and len(binds) != 1:
        return None
    # same block or an enclosing one; and when `at` sits in a loop that re-binds the name later, the back edge brings
    # that later value too - unless `last` itself is inside the same loop body (then it is re-established each round)
    for lp in loops:
        if any(in_body_of(b, lp) for b in after_in_loop) and not in_body_of(last_for_block, lp):
            return None
        if at_stmt in binds and in_body_of(at_stmt, lp) and not in_body_of(last_for_block, lp):
            return None
    # the block relation must be "same statement list" or ancestor: check that `last` precedes on the chain
    for a, fld in chain:
        blk = getattr(a, fld, [])
        if isinstance(blk, list) and any(last_for_block is x for x in blk):
            return last
    # a name with ONE binding in the whole function: wherever it is read without raising, it has that value
    is_param = isinstance(fn, (ast.FunctionDef, ast.AsyncFunctionDef, ast.Lambda)) and name in {a.arg for a in ast.walk(fn.args) if isinstance(a, ast.arg)}
    if len(binds) == 1 and not is_param and not any(isinstance(a, (ast.For, ast.AsyncFor, ast.While)) for a in ancestors(last_for_block)
                                   if not isinstance(a, (ast.FunctionDef, ast.AsyncFunctionDef)) and not any(a is l for l in loops)):
        return last
    return None


def expand_at(fn: ast.AST, expr: Optional[ast.AST], at: ast.AST, depth: int = 10, keep: Iterable[str] = (), unpack_calls: bool = False,
              stop: Iterable[ast.AST] = ()) -> Optional[ast.AST]:
    """`expr` as evaluated at statement `at`, with local names replaced by the expressions that reach them
    (follows re-binding chains such as `m = a & b; m = m.all(-1)`).  Parameters and unresolvable names stay."""
    if expr is None:
        return None
    from .inline import clone

    keep = set(keep)
    stop_ids = {id(x) for x in stop}

    def go(e: ast.AST, at_: ast.AST, d: int) -> ast.AST:
        if d <= 0:
            return clone(e)

        class T(ast.NodeTransformer):
            def visit_Name(self, node: ast.Name):
                if not isinstance(node.ctx, ast.Load) or node.id in keep:
                    return node
                rd = reaching_def(fn, node.id, at_, unpack_calls)
                if rd is None or id(rd) in stop_ids or id(getattr(rd, "_orig", None)) in stop_ids:
                    return node
                return go(rd.value, rd, d - 1)

            def visit_Lambda(self, node):
                return node

        return T().visit(clone(e))

    return go(expr, at, depth)


import re as _re


def dims(text: str) -> str:
    """Canonical spelling of tensor dimensions in normalised text: X.shape[k] and X.size(k) are the same thing."""
    return _re.sub(r"\.shape\[(-?\d+)\]", r".size(\1)", text)


def peel(e: ast.AST, *attrs: str) -> ast.AST:
    """Strip trailing method calls such as .to(...), .float(), .contiguous() whose names are in `attrs`."""
    while isinstance(e, ast.Call) and isinstance(e.func, ast.Attribute) and e.func.attr in attrs:
        e = e.func.value
    return e


class _StripDevice(ast.NodeTransformer):
    def visit_Call(self, node: ast.Call):
        node = self.generic_visit(node)
        if isinstance(node.func, ast.Attribute):
            if node.func.attr in ("cuda", "cpu", "contiguous") and not node.args:
                return node.func.value
            if node.func.attr == "to" and len(node.args) == 1 and not node.keywords:
                a = node.args[0]
                if (isinstance(a, ast.Attribute) and a.attr == "device") or (isinstance(a, ast.Name) and "device" in a.id):
                    return node.func.value
        return node


def strip_device(e: Optional[ast.AST]) -> Optional[ast.AST]:
    """Remove device moves (.to(x.device), .cuda(), .cpu(), .contiguous()): they never change values."""
    if e is None:
        return None
    from .inline import clone

    return _StripDevice().visit(clone(e))


def virtual_loops(node: ast.AST) -> List[Tuple[ast.AST, ast.AST, ast.AST]]:
    """(target, iterable, loop node) of every loop level enclosing `node`, innermost first; a loop over
    itertools.product(X, Y, ...) with a tuple target counts as the nested loops `for x in X: for y in Y: ...`."""
    out: List[Tuple[ast.AST, ast.AST, ast.AST]] = []
    for lp in enclosing_loops(node):
        if not isinstance(lp, (ast.For, ast.AsyncFor)):
            continue
        it, tg = lp.iter, lp.target
        if isinstance(it, ast.Call) and norm(it.func).split(".")[-1] == "product" and isinstance(tg, ast.Tuple) and len(tg.elts) == len(it.args) and not it.keywords:
            for t, x in reversed(list(zip(tg.elts, it.args))):
                out.append((t, x, lp))
        else:
            out.append((tg, it, lp))
    return out


def mask_of(fn: ast.AST, e: ast.AST, depth: int = 3, at: Optional[ast.AST] = None) -> Optional[ast.Compare]:
    """The comparison a mask / index expression denotes, by identity: the comparison itself (possibly wrapped in
    .nonzero() / .squeeze() / parentheses), a name bound once to it, or the loop / comprehension variable of an
    iteration over a list whose elements are that comparison."""
    e = peel(e, "nonzero", "squeeze", "flatten", "bool", "to")
    if isinstance(e, ast.Compare):
        return e
    if not isinstance(e, ast.Name) or depth <= 0:
        return None
    defs = [s_ for s_ in assignments_to(fn, e.id) if isinstance(s_, ast.Assign)]
    if len(defs) == 1:
        m = mask_of(fn, defs[0].value, depth - 1, defs[0])
        if m is not None:
            return m
    elif at is not None:
        rd = reaching_def(fn, e.id, at)
        if rd is not None:
            m = mask_of(fn, rd.value, depth - 1, rd)
            if m is not None:
                return m
    for n in ast.walk(fn):
        it = None
        if isinstance(n, ast.comprehension) and isinstance(n.target, ast.Name) and n.target.id == e.id:
            it = n.iter
        elif isinstance(n, ast.For) and isinstance(n.target, ast.Name) and n.target.id == e.id:
            it = n.iter
        if isinstance(it, ast.Name):
            ld = [s_ for s_ in assignments_to(fn, it.id) if isinstance(s_, ast.Assign)]
            if len(ld) == 1 and isinstance(ld[0].value, ast.ListComp):
                m = mask_of(fn, ld[0].value.elt, depth - 1)
                if m is not None:
                    return m
    return None


def iteration_of(node: ast.AST, var: str) -> Optional[ast.AST]:
    """The iterable that the loop / comprehension variable `var` ranges over at `node` (innermost binding)."""
    for a in ancestors(node):
        if isinstance(a, (ast.ListComp, ast.GeneratorExp, ast.SetComp, ast.DictComp)):
            for g in a.generators:
                if var in target_names(g.target):
                    return g.iter
        if isinstance(a, (ast.For, ast.AsyncFor)) and var in target_names(a.target):
            return a.iter
    return None


# ------------------------------------------------------------------ data-driven code: unroll loops over literals
def module_consts(tree: ast.AST) -> Dict[str, ast.AST]:
    """Module-level names bound exactly once, at top level, to a literal tuple / list / dict (and never mutated by a
    statement of the module's top level): NAME -> literal."""
    out: Dict[str, ast.AST] = {}
    count: Dict[str, int] = {}
    for st in getattr(tree, "body", []):
        for t in (st.targets if isinstance(st, ast.Assign) else [getattr(st, "target", None)] if isinstance(st, (ast.AnnAssign, ast.AugAssign)) else []):
            for nm in target_names(t) if t is not None else []:
                count[nm] = count.get(nm, 0) + 1
        if isinstance(st, ast.Assign) and len(st.targets) == 1 and isinstance(st.targets[0], ast.Name) and isinstance(st.value, (ast.Tuple, ast.List, ast.Dict)):
            out[st.targets[0].id] = st.value
        elif isinstance(st, ast.AnnAssign) and isinstance(st.target, ast.Name) and isinstance(st.value, (ast.Tuple, ast.List, ast.Dict)):
            out[st.target.id] = st.value
    return {k: v for k, v in out.items() if count.get(k) == 1}


class _FoldFStrings(ast.NodeTransformer):
    """f"{'contrast'}_p" -> 'contrast_p' (what substitution of a constant for a loop variable leaves behind)."""

    def visit_JoinedStr(self, node: ast.JoinedStr):
        self.generic_visit(node)
        parts = []
        for v in node.values:
            if isinstance(v, ast.Constant) and isinstance(v.value, str):
                parts.append(v.value)
            elif isinstance(v, ast.FormattedValue) and v.conversion == -1 and v.format_spec is None and isinstance(v.value, ast.Constant) and isinstance(v.value.value, str):
                parts.append(v.value.value)
            else:
                return node
        return ast.copy_location(ast.Constant(value="".join(parts)), node)


def _literal_items(fn: ast.AST, it: ast.AST, consts: Optional[Dict[str, ast.AST]] = None) -> Optional[List[List[ast.AST]]]:
    """Elements of a loop iterable that is a literal (or a name bound once to one): a list of per-iteration value
    tuples ([k, v] for dict .items(), [e] or the components of a tuple element otherwise)."""
    def lit(e):
        if isinstance(e, ast.Name):
            d = _single_defs(fn).get(e.id)
            if d is None and consts and e.id in consts and not assignments_to(fn, e.id) \
                    and e.id not in {a.arg for a in ast.walk(fn.args) if isinstance(a, ast.arg)}:
                d = consts[e.id]   # a module-level constant the function does not shadow
            return d if isinstance(d, (ast.Dict, ast.Tuple, ast.List)) else None
        return e if isinstance(e, (ast.Dict, ast.Tuple, ast.List)) else None

    if isinstance(it, ast.Call) and isinstance(it.func, ast.Attribute) and it.func.attr == "items" and not it.args:
        d = lit(it.func.value)
        if isinstance(d, ast.Dict) and all(k is not None for k in d.keys):
            return [[k, v] for k, v in zip(d.keys, d.values)]
        return None
    if isinstance(it, ast.Call) and norm(it.func) == "zip" and len(it.args) >= 2 and not it.keywords:
        # zip(<literal of n items>, X, ...): iteration k sees (item k, X[k], ...); X is assumed to have at least n items
        lits = [lit(a) for a in it.args]
        ns = {len(l.elts) for l in lits if isinstance(l, (ast.Tuple, ast.List))}
        if len(ns) == 1 and all(isinstance(l, (ast.Tuple, ast.List)) or isinstance(a, ast.Name) for l, a in zip(lits, it.args)):
            n = ns.pop()
            rows = []
            for k in range(n):
                rows.append([l.elts[k] if isinstance(l, (ast.Tuple, ast.List)) else ast.Subscript(value=a, slice=ast.Constant(value=k), ctx=ast.Load())
                             for l, a in zip(lits, it.args)])
            return rows
        return None
    d = lit(it)
    if isinstance(d, (ast.Tuple, ast.List)):
        return [[e] for e in d.elts]
    if isinstance(d, ast.Dict) and all(k is not None for k in d.keys):
        return [[k] for k in d.keys]
    return None


def _split_list_tuples(fn: ast.AST) -> None:
    """In place:  N = ([], [], [])  (one binding, N never mutated as a container)  becomes  N_0 = []; N_1 = []; N_2 = []
    and every read of N the tuple (N_0, N_1, N_2), N[k] the name N_k: the accumulators get names of their own."""
    def empty(e):
        return (isinstance(e, ast.List) and not e.elts) or (isinstance(e, ast.Call) and norm(e.func) == "list" and not e.args and not e.keywords)

    for st in list(walk_function(fn)):
        if not (isinstance(st, ast.Assign) and len(st.targets) == 1 and isinstance(st.targets[0], ast.Name) and isinstance(st.value, (ast.Tuple, ast.List))
                and len(st.value.elts) >= 2 and all(empty(e) for e in st.value.elts)):
            continue
        name = st.targets[0].id
        par = getattr(st, "_parent", None)
        if par is not fn or enclosing_loops(st) or len(assignments_to(fn, name)) != 1:
            continue
        uses = [n for n in walk_function(fn) if isinstance(n, ast.Name) and n.id == name and n is not st.targets[0]]
        bad = False
        for u in uses:
            up = getattr(u, "_parent", None)
            if not isinstance(u.ctx, ast.Load) or (isinstance(up, ast.Attribute) and up.value is u) \
                    or (isinstance(up, ast.Subscript) and up.value is u and not isinstance(up.ctx, ast.Load)) or isinstance(up, ast.AugAssign):
                bad = True
        if bad or any(name in target_names(t) for n in walk_function(fn) if isinstance(n, (ast.For, ast.AsyncFor, ast.comprehension)) for t in [n.target]):
            continue
        taken = {n.id for n in ast.walk(fn) if isinstance(n, ast.Name)} | {a.arg for a in ast.walk(fn) if isinstance(a, ast.arg)}
        parts = []
        for k in range(len(st.value.elts)):
            nm = f"{name}_{k}"
            while nm in taken:
                nm += "_"
            taken.add(nm)
            parts.append(nm)

        class Sub(ast.NodeTransformer):
            def visit_Subscript(self, node):
                self.generic_visit(node)
                if isinstance(node.value, ast.Tuple) and getattr(node.value, "_split_of", None) == name and isinstance(const_value(node.slice), int) \
                        and -len(parts) <= const_value(node.slice) < len(parts):
                    return ast.copy_location(ast.Name(id=parts[const_value(node.slice)], ctx=ast.Load()), node)
                return node

            def visit_Name(self, node):
                if node.id == name and isinstance(node.ctx, ast.Load):
                    t = ast.Tuple(elts=[ast.Name(id=p, ctx=ast.Load()) for p in parts], ctx=ast.Load())
                    t._split_of = name  # type: ignore[attr-defined]
                    return ast.copy_location(t, node)
                return node

        idx = fn.body.index(st)
        news = [ast.copy_location(ast.Assign(targets=[ast.Name(id=p, ctx=ast.Store())], value=e), st) for p, e in zip(parts, st.value.elts)]
        fn.body[idx:idx + 1] = news
        for i_, b_ in enumerate(fn.body):
            if b_ not in news:
                fn.body[i_] = Sub().visit(b_)
        ast.fix_missing_locations(fn)
        from .program import set_parents
        set_parents(fn)


def unroll_literal_loops(fn: ast.AST, consts: Optional[Dict[str, ast.AST]] = None) -> ast.AST:
    """A copy of the function in which every top-level `for` over a literal container is replaced by its unrolled
    iterations (loop variables substituted), `if c: ...; break` bodies becoming an if/elif chain, and
    setattr(obj, "name", v) written as obj.name = v.  Loops that cannot be unrolled faithfully are left alone."""
    from .inline import clone, _Subst
    from .program import set_parents

    new = clone(fn)
    set_parents(new)
    _split_list_tuples(new)

    def subst(stmts, mapping):
        return [_FoldFStrings().visit(_Subst(mapping).visit(clone(s))) for s in stmts]

    def bind(target, vals):
        if isinstance(target, ast.Name) and len(vals) == 1:
            return {target.id: vals[0]}
        if isinstance(target, (ast.Tuple, ast.List)):
            comps = vals if len(vals) == len(target.elts) else (list(vals[0].elts) if len(vals) == 1 and isinstance(vals[0], (ast.Tuple, ast.List)) and len(vals[0].elts) == len(target.elts) else None)
            if comps is not None and all(isinstance(t, ast.Name) for t in target.elts):
                return {t.id: v for t, v in zip(target.elts, comps)}
        return None

    def unroll_block(block):
        out = []
        for st in block:
            for fld in ("body", "orelse", "finalbody"):
                if hasattr(st, fld) and isinstance(getattr(st, fld), list) and not isinstance(st, (ast.For, ast.While, ast.FunctionDef, ast.ClassDef)):
                    setattr(st, fld, unroll_block(getattr(st, fld)))
            if isinstance(st, (ast.For, ast.While)):
                keep_loop = True
            if isinstance(st, ast.For):
                items = _literal_items(new, st.iter, consts)
                maps = [bind(st.target, v) for v in items] if items is not None else None
                if maps and all(m is not None for m in maps):
                    jumps = [n for s_ in st.body for n in ast.walk(s_) if isinstance(n, (ast.Break, ast.Continue))]
                    if not jumps:
                        for m in maps:
                            out.extend(unroll_block(subst(st.body, m)))
                        out.extend(unroll_block(st.orelse))   # no break: the else block always runs
                        continue
                    if False:
                        for m in maps:
                            out.extend(unroll_block(subst(st.body, m)))
                        continue
                    single = st.body[0] if len(st.body) == 1 and isinstance(st.body[0], ast.If) and not st.body[0].orelse else None
                    if single is not None and single.body and isinstance(single.body[-1], ast.Break) and len(jumps) == 1:
                        chain = None
                        tail = unroll_block(st.orelse)   # for/else: runs when no iteration broke out
                        for m in reversed(maps):
                            test = _FoldFStrings().visit(_Subst(m).visit(clone(single.test)))
                            body = unroll_block(subst(single.body[:-1], m)) or [ast.Pass()]
                            chain = ast.If(test=test, body=body, orelse=[chain] if chain is not None else tail)
                            ast.copy_location(chain, single)
                        out.append(chain)
                        continue
            if isinstance(st, (ast.For, ast.While)):   # a loop that stays a loop: literal loops inside it are still unrolled
                st.body = unroll_block(st.body)
                st.orelse = unroll_block(st.orelse)
            out.append(st)
        return out

    new.body = unroll_block(new.body)

    class SetAttr(ast.NodeTransformer):
        def visit_Expr(self, node):
            c = node.value
            if isinstance(c, ast.Call) and norm(c.func) == "setattr" and len(c.args) == 3 and isinstance(c.args[1], ast.Constant) and isinstance(c.args[1].value, str):
                return ast.copy_location(ast.Assign(targets=[ast.Attribute(value=c.args[0], attr=c.args[1].value, ctx=ast.Store())], value=c.args[2]), node)
            return node

    new = SetAttr().visit(new)
    ast.fix_missing_locations(new)
    set_parents(new)
    return new


def self_alias(fn: ast.AST, e: Optional[ast.AST]) -> str:
    """Normalised text of `e`, except that a local bound once and stored once as `self.<attr> = local` reads as
    `self.<attr>` (the two names denote the same object from then on)."""
    if isinstance(e, ast.Name):
        binds = [s for s in assignments_to(fn, e.id)]
        stores = [s for s in walk_function(fn) if isinstance(s, ast.Assign) and isinstance(s.value, ast.Name) and s.value.id == e.id
                  and len(s.targets) == 1 and isinstance(s.targets[0], ast.Attribute) and norm(s.targets[0].value) == "self"]
        if len(binds) == 1 and len(stores) == 1:
            return norm(stores[0].targets[0])
        # cand = self.candidate  (one binding, self.candidate not re-assigned in the function): reads of cand are reads of self.candidate
        if len(binds) == 1 and isinstance(binds[0], ast.Assign) and len(binds[0].targets) == 1 and isinstance(binds[0].targets[0], ast.Name) \
                and isinstance(binds[0].value, ast.Attribute) and norm(binds[0].value).startswith("self.") and not enclosing_loops(binds[0]):
            tgt = norm(binds[0].value)
            if not any(norm(t) == tgt for st in walk_function(fn) if isinstance(st, (ast.Assign, ast.AugAssign, ast.AnnAssign)) for t in stmt_targets(st)):
                return tgt
    return norm(e) if e is not None else ""


@dataclass
class DictBuild:
    key: ast.AST
    value: ast.AST
    gen: ast.AST          # the For loop or the comprehension generator
    site: ast.AST         # the store statement or the DictComp


def dict_builds(fn: ast.AST, e: Optional[ast.AST]) -> List[DictBuild]:
    """The ways the dict denoted by `e` (a DictComp, or a name bound to a DictComp / to {} and filled by D[k] = v in a
    loop) receives its items."""
    if isinstance(e, ast.Name):
        out: List[DictBuild] = []
        for st in walk_function(fn):
            if isinstance(st, ast.Assign) and len(st.targets) == 1:
                t = st.targets[0]
                if isinstance(t, ast.Name) and t.id == e.id and isinstance(st.value, ast.DictComp):
                    out += dict_builds(fn, st.value)
                elif isinstance(t, ast.Subscript) and isinstance(t.value, ast.Name) and t.value.id == e.id:
                    loops = enclosing_loops(st)
                    out.append(DictBuild(t.slice, st.value, loops[0] if loops else None, st))
        return out
    if isinstance(e, ast.DictComp) and len(e.generators) == 1:
        return [DictBuild(e.key, e.value, e.generators[0], e)]
    return []


def linear(e: ast.AST) -> Optional[Dict[str, float]]:
    """e as a linear combination {term text: coefficient, "": constant}; None if a product of two non-constants occurs."""
    if isinstance(e, ast.Constant) and isinstance(e.value, (int, float)) and not isinstance(e.value, bool):
        return {"": float(e.value)}
    if isinstance(e, ast.UnaryOp) and isinstance(e.op, (ast.USub, ast.UAdd)):
        v = linear(e.operand)
        return None if v is None else ({k: -c for k, c in v.items()} if isinstance(e.op, ast.USub) else v)
    if isinstance(e, ast.BinOp) and isinstance(e.op, (ast.Add, ast.Sub)):
        a, b = linear(e.left), linear(e.right)
        if a is None or b is None:
            return None
        out = dict(a)
        for k, c in b.items():
            out[k] = out.get(k, 0.0) + (c if isinstance(e.op, ast.Add) else -c)
        return {k: c for k, c in out.items() if c != 0 or k == ""}
    if isinstance(e, ast.BinOp) and isinstance(e.op, ast.Mult):
        a, b = linear(e.left), linear(e.right)
        for x, y in ((a, b), (b, a)):
            if x is not None and y is not None and set(x) <= {""}:
                return {k: c * x.get("", 0.0) for k, c in y.items()}
        return {norm(e): 1.0}
    return {norm(e): 1.0}


def compare_form(t: ast.AST) -> Optional[Tuple[Dict[str, float], str]]:
    """`a OP b` (OP in < <= > >=) as (linear form of a - b with the constant moved in, one of '>', '>='): a < b is b - a > 0."""
    if not (isinstance(t, ast.Compare) and len(t.ops) == 1):
        return None
    a, b = linear(t.left), linear(t.comparators[0])
    if a is None or b is None:
        return None
    op = t.ops[0]
    if isinstance(op, (ast.Lt, ast.LtE)):
        a, b = b, a
    elif not isinstance(op, (ast.Gt, ast.GtE)):
        return None
    d = dict(a)
    for k, c in b.items():
        d[k] = d.get(k, 0.0) - c
    d = {k: c for k, c in d.items() if c != 0}
    return d, (">" if isinstance(op, (ast.Gt, ast.Lt)) else ">=")


def call_keywords(fn: ast.AST, call: ast.Call) -> List[ast.keyword]:
    """The keyword arguments of `call`, with `**d` written out when d is a local dict built in `fn` from one literal
    ({"k": v, ...} / dict(k=v)) plus constant-key item assignments d["k"] = v."""
    out: List[ast.keyword] = []
    for k in call.keywords:
        if k.arg is None and isinstance(k.value, ast.Name):
            lits = [st for st in assignments_to(fn, k.value.id) if isinstance(st, ast.Assign)]
            items = [st for st in walk_function(fn) if isinstance(st, ast.Assign) and len(st.targets) == 1 and isinstance(st.targets[0], ast.Subscript)
                     and isinstance(st.targets[0].value, ast.Name) and st.targets[0].value.id == k.value.id]
            if len(lits) == 1 and all(isinstance(st.targets[0].slice, ast.Constant) and isinstance(st.targets[0].slice.value, str) for st in items):
                v = lits[0].value
                if isinstance(v, ast.Dict) and all(isinstance(x, ast.Constant) and isinstance(x.value, str) for x in v.keys):
                    out += [ast.keyword(arg=kk.value, value=vv) for kk, vv in zip(v.keys, v.values)]
                    out += [ast.keyword(arg=st.targets[0].slice.value, value=st.value) for st in items]
                    continue
                if isinstance(v, ast.Call) and norm(v.func) == "dict" and not v.args and all(kk.arg for kk in v.keywords):
                    out += list(v.keywords)
                    out += [ast.keyword(arg=st.targets[0].slice.value, value=st.value) for st in items]
                    continue
        out.append(k)
    return out


def path_returns(fn: ast.AST, limit: int = 32) -> Optional[List[Tuple[List[Tuple[ast.AST, bool]], Optional[ast.AST]]]]:
    """The paths through a loop-free function body: [(branch decisions [(test, taken)], returned expression)], both written
    over the PARAMETERS (local names substituted by the expressions bound to them along the path).  None when the body has
    statements this walker does not model (loops, try, with binding a name, ...) - the caller then falls back / reports
    the function as not in the expected shape."""
    from .inline import clone, _Subst

    body = [st for st in fn.body if not (isinstance(st, ast.Expr) and isinstance(st.value, ast.Constant) and isinstance(st.value.value, str))]
    out: List[Tuple[List[Tuple[ast.AST, bool]], Optional[ast.AST]]] = []

    class _GiveUp(Exception):
        pass

    def sub(e, env):
        return _Subst(env).visit(clone(e)) if e is not None else None

    def run(stmts, env, conds):
        for i, st in enumerate(stmts):
            if isinstance(st, ast.Return):
                out.append((conds, sub(st.value, env)))
                if len(out) > limit:
                    raise _GiveUp()
                return True
            if isinstance(st, (ast.Pass, ast.Expr, ast.Assert, ast.Import, ast.ImportFrom)):
                continue
            if isinstance(st, ast.Raise):
                return True
            if isinstance(st, ast.AnnAssign) and st.value is not None and isinstance(st.target, ast.Name):
                env = dict(env); env[st.target.id] = sub(st.value, env)
                continue
            if isinstance(st, ast.AugAssign) and isinstance(st.target, ast.Name):
                cur = env.get(st.target.id, ast.Name(id=st.target.id, ctx=ast.Load()))
                env = dict(env); env[st.target.id] = ast.BinOp(left=clone(cur), op=st.op, right=sub(st.value, env))
                continue
            if isinstance(st, ast.Assign) and len(st.targets) == 1:
                t, v = st.targets[0], sub(st.value, env)
                env = dict(env)
                if isinstance(t, ast.Name):
                    env[t.id] = v
                    continue
                if isinstance(t, (ast.Tuple, ast.List)) and all(isinstance(e, ast.Name) for e in t.elts):
                    if isinstance(v, (ast.Tuple, ast.List)) and len(v.elts) == len(t.elts):
                        for e, x in zip(t.elts, v.elts):
                            env[e.id] = x
                    else:
                        for k, e in enumerate(t.elts):
                            env[e.id] = ast.Subscript(value=clone(v), slice=ast.Constant(value=k), ctx=ast.Load())
                    continue
                if isinstance(t, (ast.Subscript, ast.Attribute)):
                    continue   # a store into an object: the names keep their bindings
                raise _GiveUp()
            if isinstance(st, ast.If):
                t = sub(st.test, env)
                done_a = run(st.body + stmts[i + 1:], env, conds + [(t, True)])
                done_b = run(st.orelse + stmts[i + 1:], env, conds + [(t, False)])
                return done_a and done_b
            raise _GiveUp()
        out.append((conds, None))
        return True

    try:
        run(body, {}, [])
    except _GiveUp:
        return None
    return out


def record_fields(fn: ast.AST, e: Optional[ast.AST]) -> Optional[Dict[str, ast.AST]]:
    """Constant-key fields of the dict denoted by `e`: a dict literal / dict(k=v), or a name bound once to one and
    completed by `name["k"] = v` statements.  None when `e` is not such a record."""
    def lit(v):
        if isinstance(v, ast.Dict) and all(isinstance(k, ast.Constant) and isinstance(k.value, str) for k in v.keys):
            return {k.value: x for k, x in zip(v.keys, v.values)}
        if isinstance(v, ast.Call) and norm(v.func) == "dict" and not v.args and all(k.arg for k in v.keywords):
            return {k.arg: k.value for k in v.keywords}
        return None

    if isinstance(e, ast.Name):
        binds = [st for st in assignments_to(fn, e.id)]
        if len(binds) != 1 or not isinstance(binds[0], ast.Assign):
            return None
        out = lit(binds[0].value)
        if out is None:
            return None
        for st in walk_function(fn):
            if isinstance(st, ast.Assign) and len(st.targets) == 1 and isinstance(st.targets[0], ast.Subscript) and isinstance(st.targets[0].value, ast.Name) \
                    and st.targets[0].value.id == e.id and isinstance(const_value(st.targets[0].slice), str):
                out[const_value(st.targets[0].slice)] = st.value
        return out
    return lit(e) if e is not None else None


def inline_attr_aliases(fn: ast.AST) -> ast.AST:
    """A copy of the function in which a local bound ONCE to an attribute chain (`g = cfg.geometric`) is replaced, at its
    later uses, by that chain - provided the chain's root names are not re-bound and the chain itself is not assigned after
    the alias was taken (then `g.x = v` and `cfg.geometric.x = v` are the same store on the same object)."""
    from .inline import clone
    from .program import set_parents

    new = clone(fn)
    set_parents(new)
    subst: Dict[str, Tuple[ast.AST, int]] = {}
    params = {a.arg for a in ast.walk(new.args) if isinstance(a, ast.arg)} if hasattr(new, "args") else set()
    for st in walk_function(new):
        if isinstance(st, ast.Assign) and len(st.targets) == 1 and isinstance(st.targets[0], ast.Name) and isinstance(st.value, ast.Attribute) and not enclosing_loops(st):
            nm = st.targets[0].id
            chain = st.value
            root = chain
            while isinstance(root, ast.Attribute):
                root = root.value
            if not isinstance(root, ast.Name) or nm in params or len(assignments_to(new, nm)) != 1:
                continue
            text = norm(chain)
            later_store = any(isinstance(x, (ast.Assign, ast.AugAssign, ast.AnnAssign)) and getattr(x, "lineno", 0) > st.lineno
                              and any(norm(t) == text or norm(t) == root.id for t in stmt_targets(x)) for x in walk_function(new))
            if later_store or len(assignments_to(new, root.id)) > (0 if root.id in params or root.id == "self" else 1):
                continue
            subst[nm] = (chain, st.lineno)
    if not subst:
        return new

    class T(ast.NodeTransformer):
        def visit_Name(self, node: ast.Name):
            if node.id in subst and isinstance(node.ctx, ast.Load) and getattr(node, "lineno", 0) > subst[node.id][1]:
                return ast.copy_location(clone(subst[node.id][0]), node)
            return node

    new = T().visit(new)
    ast.fix_missing_locations(new)
    set_parents(new)
    return new
