"""Small AST query helpers shared by the property modules."""

from __future__ import annotations

import ast
from typing import Dict, Iterable, Iterator, List, Optional, Set, Tuple

from .program import FunctionInfo, Program, ancestors, attr_chain, norm, walk_function


def names_in(node: ast.AST) -> Set[str]:
    return {n.id for n in ast.walk(node) if isinstance(n, ast.Name)}


def loads_in(node: ast.AST) -> Set[str]:
    return {n.id for n in ast.walk(node) if isinstance(n, ast.Name) and isinstance(n.ctx, ast.Load)}


def target_names(t: ast.AST) -> Set[str]:
    """Plain names bound by an assignment target (tuple unpacking included)."""
    out: Set[str] = set()
    if isinstance(t, ast.Name):
        out.add(t.id)
    elif isinstance(t, (ast.Tuple, ast.List)):
        for e in t.elts:
            out |= target_names(e)
    elif isinstance(t, ast.Starred):
        out |= target_names(t.value)
    return out


def stmt_targets(st: ast.stmt) -> List[ast.AST]:
    if isinstance(st, ast.Assign):
        return list(st.targets)
    if isinstance(st, (ast.AugAssign, ast.AnnAssign)):
        return [st.target]
    if isinstance(st, (ast.For, ast.AsyncFor)):
        return [st.target]
    if isinstance(st, (ast.With, ast.AsyncWith)):
        return [i.optional_vars for i in st.items if i.optional_vars is not None]
    return []


def assignments_to(fn: ast.AST, name: str) -> List[ast.stmt]:
    out = []
    for n in walk_function(fn):
        if isinstance(n, ast.stmt):
            for t in stmt_targets(n):
                if name in target_names(t):
                    out.append(n)
    return out


def method_calls(fn: ast.AST, attr: str) -> List[ast.Call]:
    """Calls of the form <expr>.<attr>(...)."""
    return [
        n
        for n in walk_function(fn)
        if isinstance(n, ast.Call) and isinstance(n.func, ast.Attribute) and n.func.attr == attr
    ]


def calls_named(prog: Program, fi: FunctionInfo, *quals: str) -> List[ast.Call]:
    return [c for c, q in prog.calls_in(fi) if q in quals]


def enclosing_loops(node: ast.AST, stop: Optional[ast.AST] = None) -> List[ast.AST]:
    out = []
    for a in ancestors(node):
        if a is stop:
            break
        if isinstance(a, (ast.FunctionDef, ast.AsyncFunctionDef, ast.Lambda)):
            break
        if isinstance(a, (ast.For, ast.AsyncFor, ast.While)):
            out.append(a)
    return out


def in_body_of(node: ast.AST, comp: ast.AST, field: str = "body") -> bool:
    """Is `node` inside comp.<field> (e.g. the body of a loop, the orelse of an if)?"""
    body = getattr(comp, field, [])
    ids = set()
    for st in body:
        for n in ast.walk(st):
            ids.add(id(n))
    return id(node) in ids


def dict_literal_get(d: ast.AST, key: str) -> Optional[ast.AST]:
    if isinstance(d, ast.Dict):
        for k, v in zip(d.keys, d.values):
            if isinstance(k, ast.Constant) and k.value == key:
                return v
    return None


def dep_closure(stmts: Iterable[ast.stmt], seeds: Set[str]) -> Set[str]:
    """Names data-dependent on `seeds` through assignments in `stmts` (flow-insensitive closure)."""
    dep = set(seeds)
    changed = True
    flat = [n for st in stmts for n in ast.walk(st) if isinstance(n, ast.stmt)]
    while changed:
        changed = False
        for st in flat:
            rhs: Optional[ast.AST] = None
            if isinstance(st, ast.Assign):
                rhs = st.value
            elif isinstance(st, ast.AugAssign):
                rhs = st.value
            elif isinstance(st, ast.AnnAssign):
                rhs = st.value
            elif isinstance(st, (ast.For, ast.AsyncFor)):
                rhs = st.iter
            if rhs is None:
                continue
            if loads_in(rhs) & dep:
                for t in stmt_targets(st):
                    for nm in target_names(t):
                        if nm not in dep:
                            dep.add(nm)
                            changed = True
                    # x[k] = v / x.a = v makes the container dependent as well
                    base = t
                    while isinstance(base, (ast.Subscript, ast.Attribute)):
                        base = base.value
                    if isinstance(base, ast.Name) and base.id not in dep and not isinstance(t, ast.Name):
                        dep.add(base.id)
                        changed = True
    return dep


def is_none_test(test: ast.AST) -> Optional[ast.AST]:
    """`X is None` / `X == None` / `None is X` -> X."""
    if isinstance(test, ast.Compare) and len(test.ops) == 1 and isinstance(test.ops[0], (ast.Is, ast.Eq)):
        l, r = test.left, test.comparators[0]
        if isinstance(r, ast.Constant) and r.value is None:
            return l
        if isinstance(l, ast.Constant) and l.value is None:
            return r
    return None


def const_value(node: ast.AST):
    if isinstance(node, ast.Constant):
        return node.value
    if isinstance(node, ast.UnaryOp) and isinstance(node.op, ast.USub) and isinstance(node.operand, ast.Constant):
        return -node.operand.value
    return ...


def call_arg(call: ast.Call, pos: int, kw: str) -> Optional[ast.AST]:
    for k in call.keywords:
        if k.arg == kw:
            return k.value
    if pos is not None and pos < len(call.args) and not any(isinstance(a, ast.Starred) for a in call.args[: pos + 1]):
        return call.args[pos]
    return None


def bind_args(fi: FunctionInfo, call: ast.Call, skip_self: bool = False) -> Dict[str, ast.AST]:
    """Bind call arguments to the callee's parameter names (no *args/**kwargs expansion)."""
    params = fi.pos_params
    if skip_self and params and params[0] in ("self", "cls"):
        params = params[1:]
    out: Dict[str, ast.AST] = {}
    for i, a in enumerate(call.args):
        if isinstance(a, ast.Starred):
            break
        if i < len(params):
            out[params[i]] = a
    for k in call.keywords:
        if k.arg is not None:
            out[k.arg] = k.value
    return out


def deref(fn: ast.AST, node: Optional[ast.AST], depth: int = 3) -> Optional[ast.AST]:
    """Follow a plain local name to the expression it was assigned (single assignment only)."""
    while node is not None and isinstance(node, ast.Name) and depth > 0:
        defs = assignments_to(fn, node.id)
        if len(defs) != 1 or not isinstance(defs[0], ast.Assign) or len(defs[0].targets) != 1 \
                or not isinstance(defs[0].targets[0], ast.Name):
            return node
        node = defs[0].value
        depth -= 1
    return node


def attr_base(node: ast.AST) -> Optional[str]:
    """Name at the base of a subscript/attribute chain."""
    cur = node
    while isinstance(cur, (ast.Subscript, ast.Attribute)):
        cur = cur.value
    return cur.id if isinstance(cur, ast.Name) else None
