"""Program model: parse every module of the CURRENT /repo tree, index symbols, resolve callees.

Nothing in sleap_nn is imported or executed; only `ast` is used.
"""

from __future__ import annotations

import ast
import hashlib
import os
from dataclasses import dataclass, field
from pathlib import Path
from typing import Dict, Iterable, Iterator, List, Optional, Tuple

REPO = Path(os.environ.get("VERIF_REPO", "/repo"))
PKG = "sleap_nn"


class AnalysisError(Exception):
    """The analysis could not be carried out (anchor vanished, unparsable file...)."""


# well known import aliases -> canonical package names
_CANON = {
    "np": "numpy",
    "K": "kornia",
    "F": None,  # resolved through the import table of the module
    "T": None,
    "L": None,
    "nx": "networkx",
    "sio": "sleap_io",
    "ld": "litdata",
    "tvf": None,
}


@dataclass
class FunctionInfo:
    module: "ModuleInfo"
    cls: Optional["ClassInfo"]
    name: str
    node: ast.AST  # FunctionDef / AsyncFunctionDef
    parent_func: Optional["FunctionInfo"] = None

    @property
    def qualname(self) -> str:
        if self.cls is not None:
            return f"{self.module.name}:{self.cls.name}.{self.name}"
        if self.parent_func is not None:
            return f"{self.parent_func.qualname}.<locals>.{self.name}"
        return f"{self.module.name}:{self.name}"

    @property
    def params(self) -> List[str]:
        a = self.node.args
        out = [x.arg for x in a.posonlyargs + a.args]
        if a.vararg:
            out.append("*" + a.vararg.arg)
        out += [x.arg for x in a.kwonlyargs]
        if a.kwarg:
            out.append("**" + a.kwarg.arg)
        return out

    @property
    def pos_params(self) -> List[str]:
        a = self.node.args
        return [x.arg for x in a.posonlyargs + a.args]

    def param_defaults(self) -> Dict[str, ast.AST]:
        a = self.node.args
        pos = a.posonlyargs + a.args
        out = {}
        for p, d in zip(pos[len(pos) - len(a.defaults):], a.defaults):
            out[p.arg] = d
        for p, d in zip(a.kwonlyargs, a.kw_defaults):
            if d is not None:
                out[p.arg] = d
        return out

    def annotations(self) -> Dict[str, Optional[ast.AST]]:
        a = self.node.args
        return {x.arg: x.annotation for x in a.posonlyargs + a.args + a.kwonlyargs}

    @property
    def where(self) -> str:
        return f"{self.module.relpath}:{self.node.lineno}"


@dataclass
class ClassInfo:
    module: "ModuleInfo"
    name: str
    node: ast.ClassDef
    bases: List[str] = field(default_factory=list)  # resolved qualified names
    methods: Dict[str, FunctionInfo] = field(default_factory=dict)

    @property
    def qualname(self) -> str:
        return f"{self.module.name}:{self.name}"

    def decorators(self) -> List[str]:
        return [ast.unparse(d) for d in self.node.decorator_list]

    def fields(self) -> Dict[str, ast.AnnAssign]:
        out = {}
        for st in self.node.body:
            if isinstance(st, ast.AnnAssign) and isinstance(st.target, ast.Name):
                out[st.target.id] = st
        return out


@dataclass
class ModuleInfo:
    name: str
    path: Path
    relpath: str
    src: str
    tree: ast.Module
    digest: str
    imports: Dict[str, str] = field(default_factory=dict)
    functions: Dict[str, FunctionInfo] = field(default_factory=dict)
    classes: Dict[str, ClassInfo] = field(default_factory=dict)


def set_parents(tree: ast.AST) -> None:
    for node in ast.walk(tree):
        for ch in ast.iter_child_nodes(node):
            ch._parent = node  # type: ignore[attr-defined]
    tree._parent = None  # type: ignore[attr-defined]


def norm(node: ast.AST) -> str:
    """Normalised text of a node: the key of a finding (never a line number)."""
    try:
        s = ast.unparse(node)
    except Exception:  # pragma: no cover
        s = ast.dump(node)
    return " ".join(s.split())


def short(node: ast.AST, n: int = 110) -> str:
    s = norm(node)
    return s if len(s) <= n else s[: n - 3] + "..."



class _Subst(ast.NodeTransformer):
    def __init__(self, m):
        self.m = m

    def visit_Name(self, node):
        if isinstance(node.ctx, ast.Load) and node.id in self.m:
            import copy

            return copy.deepcopy(self.m[node.id])
        return node


class _UnpackLiteralGen(ast.NodeTransformer):
    """`a, b = (E(v) for v in (X, Y))`  ->  `a, b = (E(X), E(Y))`: a tuple-unpacked comprehension over a literal
    sequence is a fixed tuple, written out so that the single-assignment expansion sees each element."""

    def visit_Assign(self, node):
        self.generic_visit(node)
        v = node.value
        if len(node.targets) == 1 and isinstance(node.targets[0], (ast.Tuple, ast.List)) and isinstance(v, (ast.GeneratorExp, ast.ListComp)) \
                and len(v.generators) == 1 and not v.generators[0].ifs and not v.generators[0].is_async \
                and isinstance(v.generators[0].iter, (ast.Tuple, ast.List)) and len(v.generators[0].iter.elts) == len(node.targets[0].elts):
            g = v.generators[0]
            elts = []
            import copy

            for item in g.iter.elts:
                if isinstance(g.target, ast.Name):
                    m = {g.target.id: item}
                elif isinstance(g.target, (ast.Tuple, ast.List)) and isinstance(item, (ast.Tuple, ast.List)) and len(item.elts) == len(g.target.elts) \
                        and all(isinstance(t, ast.Name) for t in g.target.elts):
                    m = {t.id: e for t, e in zip(g.target.elts, item.elts)}
                else:
                    return node
                elts.append(_Subst(m).visit(copy.deepcopy(v.elt)))
            node.value = ast.copy_location(ast.Tuple(elts=elts, ctx=ast.Load()), v)
            ast.fix_missing_locations(node)
        return node



def _stable_operand(e: ast.AST, rebound: Set[str]) -> bool:
    """An expression whose value cannot differ between the point it was packed and the point it is unpacked: constants,
    and names / attribute chains whose root name is bound at most once in the function."""
    if isinstance(e, ast.Constant):
        return True
    if isinstance(e, ast.Name):
        return e.id not in rebound
    if isinstance(e, ast.Attribute):
        return _stable_operand(e.value, rebound)
    return False



class _SplitChained(ast.NodeTransformer):
    """a = b = E  ->  a = E; b = E  (E a name / constant / attribute chain)  or  b = E; a = b  (E computed): one binding
    per statement, so that the definition-use helpers see each of them."""

    def _simple(self, e):
        return isinstance(e, (ast.Name, ast.Constant)) or (isinstance(e, ast.Attribute) and self._simple(e.value))

    def visit_Assign(self, node):
        if len(node.targets) < 2 or not all(isinstance(t, ast.Name) for t in node.targets):
            return node
        import copy

        if self._simple(node.value):
            out = [ast.copy_location(ast.Assign(targets=[t], value=copy.deepcopy(node.value)), node) for t in node.targets]
        else:
            last = node.targets[-1]
            out = [ast.copy_location(ast.Assign(targets=[last], value=node.value), node)]
            out += [ast.copy_location(ast.Assign(targets=[t], value=ast.Name(id=last.id, ctx=ast.Load())), node) for t in node.targets[:-1]]
        for o in out:
            ast.fix_missing_locations(o)
        return out


class _SplatLiterals(ast.NodeTransformer):
    """f(*t) with `t = (a, b, c)` bound once  ->  f(a, b, c);   f(**d) with `d = {"k": v}` / `d = dict(k=v)` bound
    once  ->  f(k=v).  Only when the packed operands are stable (see _stable_operand) and the pack itself is not
    mutated, so the rewritten call receives exactly the values the original receives."""

    def visit_FunctionDef(self, fn):
        self.generic_visit(fn)
        binds: Dict[str, List[ast.AST]] = {}
        mutated: Set[str] = set()
        for n in ast.walk(fn):
            if isinstance(n, ast.Name) and isinstance(n.ctx, ast.Store):
                binds.setdefault(n.id, []).append(n)
            elif isinstance(n, ast.arg):
                binds.setdefault(n.arg, []).append(n)
            elif isinstance(n, (ast.Subscript, ast.Attribute)) and isinstance(n.ctx, (ast.Store, ast.Del)) and isinstance(n.value, ast.Name):
                mutated.add(n.value.id)
            elif isinstance(n, ast.Call) and isinstance(n.func, ast.Attribute) and isinstance(n.func.value, ast.Name) \
                    and n.func.attr in ("append", "extend", "update", "pop", "setdefault", "insert", "remove", "clear", "popitem"):
                mutated.add(n.func.value.id)
            elif isinstance(n, ast.AugAssign) and isinstance(n.target, ast.Name):
                binds.setdefault(n.target.id, []).append(n)
                binds.setdefault(n.target.id, []).append(n)
        rebound = {k for k, v in binds.items() if len(v) > 1}
        packs: Dict[str, ast.AST] = {}
        for st in ast.walk(fn):
            if isinstance(st, ast.Assign) and len(st.targets) == 1 and isinstance(st.targets[0], ast.Name):
                nm = st.targets[0].id
                if nm in rebound or nm in mutated:
                    continue
                v = st.value
                if isinstance(v, (ast.Tuple, ast.List)) and all(_stable_operand(e, rebound) for e in v.elts):
                    packs[nm] = v
                elif isinstance(v, ast.Dict) and v.keys and all(isinstance(k, ast.Constant) and isinstance(k.value, str) for k in v.keys) \
                        and all(_stable_operand(e, rebound) for e in v.values):
                    packs[nm] = v
                elif isinstance(v, ast.Call) and isinstance(v.func, ast.Name) and v.func.id == "dict" and not v.args and v.keywords \
                        and all(k.arg is not None and _stable_operand(k.value, rebound) for k in v.keywords):
                    packs[nm] = v
        import copy

        for c in ast.walk(fn):
            if not isinstance(c, ast.Call):
                continue
            args: List[ast.AST] = []
            for a in c.args:
                if isinstance(a, ast.Starred) and isinstance(a.value, ast.Name) and isinstance(packs.get(a.value.id), (ast.Tuple, ast.List)):
                    args += [copy.deepcopy(e) for e in packs[a.value.id].elts]
                else:
                    args.append(a)
            c.args = args
            kws: List[ast.keyword] = []
            for k in c.keywords:
                pk = packs.get(k.value.id) if k.arg is None and isinstance(k.value, ast.Name) else None
                if k.arg is None and isinstance(k.value, ast.Dict) and k.value.keys and all(isinstance(x, ast.Constant) and isinstance(x.value, str) for x in k.value.keys):
                    pk = k.value  # f(**{"k": v})
                if isinstance(pk, ast.Dict):
                    kws += [ast.keyword(arg=kk.value, value=copy.deepcopy(vv)) for kk, vv in zip(pk.keys, pk.values)]
                elif isinstance(pk, ast.Call):
                    kws += [ast.keyword(arg=kk.arg, value=copy.deepcopy(kk.value)) for kk in pk.keywords]
                else:
                    kws.append(k)
            c.keywords = kws
        # the same unpacking in a returned / assigned tuple: (*t, x) -> (a, b, c, x)
        for t in ast.walk(fn):
            if isinstance(t, (ast.Tuple, ast.List)) and isinstance(getattr(t, "ctx", None), ast.Load):
                elts: List[ast.AST] = []
                for e in t.elts:
                    if isinstance(e, ast.Starred) and isinstance(e.value, ast.Name) and isinstance(packs.get(e.value.id), (ast.Tuple, ast.List)):
                        elts += [copy.deepcopy(x) for x in packs[e.value.id].elts]
                    else:
                        elts.append(e)
                t.elts = elts
        ast.fix_missing_locations(fn)
        return fn

    visit_AsyncFunctionDef = visit_FunctionDef


class Program:
    def __init__(self, repo: Optional[Path] = None, overrides: Optional[Dict[str, str]] = None):
        self.repo = Path(repo or os.environ.get("VERIF_REPO", "/repo"))
        self.overrides = dict(overrides or {})
        self.modules: Dict[str, ModuleInfo] = {}
        self.functions: Dict[str, FunctionInfo] = {}
        self.classes: Dict[str, ClassInfo] = {}
        self._load()

    # ------------------------------------------------------------------ load
    def _load(self) -> None:
        pkg_dir = self.repo / PKG
        if not pkg_dir.is_dir():
            raise AnalysisError(f"{pkg_dir} does not exist")
        for path in sorted(pkg_dir.rglob("*.py")):
            rel = path.relative_to(self.repo).as_posix()
            name = rel[:-3].replace("/", ".")
            if name.endswith(".__init__"):
                name = name[: -len(".__init__")]
            src = self.overrides.get(rel)
            if src is None:
                src = path.read_text()
            try:
                tree = ast.parse(src, filename=str(path))
            except SyntaxError as e:
                raise AnalysisError(f"cannot parse {rel}: {e}")
            tree = _SplatLiterals().visit(_UnpackLiteralGen().visit(_SplitChained().visit(tree)))
            set_parents(tree)
            mi = ModuleInfo(
                name=name,
                path=path,
                relpath=rel,
                src=src,
                tree=tree,
                digest=hashlib.sha256(src.encode()).hexdigest()[:16],
            )
            self.modules[name] = mi
        for mi in self.modules.values():
            self._index_imports(mi)
            self._index_defs(mi)
        for ci in self.classes.values():
            ci.bases = [self.resolve_expr_name(ci.module, b) or norm(b) for b in ci.node.bases]
        # normalisation: absorb helpers that are new w.r.t. the reference function table (see core/inline.py)
        self.inlined: List[Tuple[str, str]] = []
        self.renamed: Dict[str, str] = {}
        if not os.environ.get("VERIF_NO_INLINE"):
            from .inline import Inliner, load_known

            known = load_known()
            if known is not None:
                self._undo_renames()
                inl = Inliner(self, known)
                inl.run()
                self.inlined = inl.log

    def _undo_renames(self) -> None:
        """A function of the reference table that vanished while ONE new function with the same parameters and mostly
        the same statements appeared in the same class / module is that function under a new name: it is indexed under
        its reference name again (rules and call resolution keep working; a rename changes no behaviour)."""
        import hashlib
        from .inline import load_known_full

        full = load_known_full()
        if not full:
            return
        missing = [q for q in full if q not in self.functions and "<locals>" not in q]
        new = [q for q in self.functions if q not in full and "<locals>" not in q]
        if not missing or not new:
            return

        def scope(q: str) -> str:
            mod, _, rest = q.partition(":")
            return mod + ":" + (rest.rsplit(".", 1)[0] if "." in rest else "")

        def sig(fi) -> set:
            hs = set()
            for st in walk_function(fi.node):
                if isinstance(st, ast.stmt) and not isinstance(st, (ast.FunctionDef, ast.AsyncFunctionDef, ast.ClassDef)) and st is not fi.node:
                    hs.add(hashlib.sha1(norm(st).encode()).hexdigest()[:8])
            return hs

        taken = set()
        for m in missing:
            ref = full[m]
            cands = []
            for n in new:
                if n in taken or scope(n) != scope(m):
                    continue
                fi = self.functions[n]
                if fi.params != ref.get("params"):
                    continue
                a, b = sig(fi), set(ref.get("sig", []))
                sim = len(a & b) / max(1, len(a | b))
                if sim >= 0.5 or (not b and not a):
                    cands.append((sim, n))
            if len(cands) != 1:
                continue
            n = cands[0][1]
            taken.add(n)
            self.renamed[m] = n
        self._apply_renames()

    def _apply_renames(self) -> None:
        self._canon_names = {n: m for m, n in self.renamed.items()}  # new qualified name -> reference name
        for m, n in self.renamed.items():
            fi = self.functions.get(n)
            if fi is None:
                continue
            old_name = m.split(":", 1)[1].rsplit(".", 1)[-1]
            fi.name = old_name  # qualname (computed from .name) is the reference name again
            self.functions[m] = fi
            del self.functions[n]
            if fi.cls is not None:
                fi.cls.methods[old_name] = fi  # the new name stays as a key too: call sites use it
            else:
                fi.module.functions[old_name] = fi

    def _reindex(self) -> None:
        self.functions.clear()
        self.classes.clear()
        for mi in self.modules.values():
            mi.functions.clear()
            mi.classes.clear()
            ast.fix_missing_locations(mi.tree)
            set_parents(mi.tree)
            self._index_defs(mi)
        for ci in self.classes.values():
            ci.bases = [self.resolve_expr_name(ci.module, b) or norm(b) for b in ci.node.bases]
        if getattr(self, "renamed", None):
            self._apply_renames()

    def _index_imports(self, mi: ModuleInfo) -> None:
        for node in ast.walk(mi.tree):
            if isinstance(node, ast.Import):
                for a in node.names:
                    local = a.asname or a.name.split(".")[0]
                    target = a.name if a.asname else a.name.split(".")[0]
                    mi.imports[local] = target
            elif isinstance(node, ast.ImportFrom):
                mod = node.module or ""
                if node.level:
                    base = mi.name.split(".")
                    base = base[: len(base) - node.level + (0 if mi.path.name != "__init__.py" else 1)]
                    mod = ".".join(base + ([mod] if mod else []))
                for a in node.names:
                    mi.imports[a.asname or a.name] = f"{mod}.{a.name}"

    def _index_defs(self, mi: ModuleInfo) -> None:
        def visit(body, cls: Optional[ClassInfo], parent: Optional[FunctionInfo]):
            for st in body:
                if isinstance(st, (ast.FunctionDef, ast.AsyncFunctionDef)):
                    fi = FunctionInfo(mi, cls, st.name, st, parent)
                    if cls is not None and parent is None:
                        cls.methods[st.name] = fi
                    elif parent is None:
                        mi.functions[st.name] = fi
                    self.functions[fi.qualname] = fi
                    visit(st.body, None, fi)
                elif isinstance(st, ast.ClassDef) and parent is None and cls is None:
                    ci = ClassInfo(mi, st.name, st)
                    mi.classes[st.name] = ci
                    self.classes[ci.qualname] = ci
                    visit(st.body, ci, None)
                elif isinstance(st, (ast.If, ast.Try, ast.With)) and parent is None:
                    # defs under `if __name__ == ...` etc. are not indexed as API
                    pass

        visit(mi.tree.body, None, None)

    # --------------------------------------------------------------- lookup
    def module(self, name: str) -> ModuleInfo:
        if name not in self.modules:
            raise AnalysisError(f"anchor module vanished: {name}")
        return self.modules[name]

    def func(self, qualname: str) -> FunctionInfo:
        if qualname not in self.functions:
            raise AnalysisError(f"anchor function vanished: {qualname}")
        return self.functions[qualname]

    def cls(self, qualname: str) -> ClassInfo:
        if qualname not in self.classes:
            raise AnalysisError(f"anchor class vanished: {qualname}")
        return self.classes[qualname]

    def has_func(self, qualname: str) -> bool:
        return qualname in self.functions

    def mro(self, ci: ClassInfo) -> List[ClassInfo]:
        out, seen, todo = [], set(), [ci]
        while todo:
            c = todo.pop(0)
            if c.qualname in seen:
                continue
            seen.add(c.qualname)
            out.append(c)
            for b in c.bases:
                q = self._class_by_dotted(b)
                if q is not None:
                    todo.append(q)
        return out

    def _class_by_dotted(self, dotted: str) -> Optional[ClassInfo]:
        if ":" in dotted:
            return self.classes.get(dotted)
        if "." in dotted:
            mod, _, name = dotted.rpartition(".")
            return self.classes.get(f"{mod}:{name}")
        return None

    def external_bases(self, ci: ClassInfo) -> List[str]:
        out = []
        for c in self.mro(ci):
            for b in c.bases:
                if self._class_by_dotted(b) is None:
                    out.append(b)
        return out

    def lookup_method(self, ci: ClassInfo, name: str) -> Optional[FunctionInfo]:
        for c in self.mro(ci):
            if name in c.methods:
                return c.methods[name]
        return None

    def subclasses(self, ci: ClassInfo) -> List[ClassInfo]:
        return [c for c in self.classes.values() if c is not ci and ci in self.mro(c)]

    # -------------------------------------------------------------- resolve
    def resolve_expr_name(self, mi: ModuleInfo, node: ast.AST) -> Optional[str]:
        """Dotted qualified name of a Name/Attribute chain through the import table."""
        parts: List[str] = []
        cur = node
        while isinstance(cur, ast.Attribute):
            parts.append(cur.attr)
            cur = cur.value
        if not isinstance(cur, ast.Name):
            return None
        parts.reverse()
        head = cur.id
        if head in mi.imports:
            base = mi.imports[head]
        elif head in mi.functions:
            base = f"{mi.name}:{head}"
            return base if not parts else None
        elif head in mi.classes:
            base = f"{mi.name}:{head}"
            if not parts:
                return base
            if len(parts) == 1:
                m = self.lookup_method(mi.classes[head], parts[0])
                return m.qualname if m else f"{base}.{parts[0]}"
            return None
        else:
            return None
        dotted = ".".join([base] + parts)
        return self._to_repo_qual(dotted)

    def _to_repo_qual(self, dotted: str) -> str:
        """sleap_nn.data.utils.make_grid_vectors -> sleap_nn.data.utils:make_grid_vectors."""
        if not dotted.startswith(PKG + "."):
            return dotted
        segs = dotted.split(".")
        for i in range(len(segs), 0, -1):
            mod = ".".join(segs[:i])
            if mod in self.modules:
                rest = segs[i:]
                if not rest:
                    return mod
                mi = self.modules[mod]
                if rest[0] in mi.functions and len(rest) == 1:
                    return f"{mod}:{rest[0]}"
                if rest[0] in mi.classes:
                    if len(rest) == 1:
                        return f"{mod}:{rest[0]}"
                    m = self.lookup_method(mi.classes[rest[0]], rest[1])
                    if m and len(rest) == 2:
                        return m.qualname
                    return f"{mod}:{'.'.join(rest)}"
                if rest[0] in mi.imports:  # re-export
                    return self._to_repo_qual(".".join([mi.imports[rest[0]]] + rest[1:]))
                return f"{mod}:{'.'.join(rest)}"
        return dotted

    def resolve_call(self, fi: FunctionInfo, call: ast.Call) -> str:
        q = self._resolve_call(fi, call)
        canon = getattr(self, "_canon_names", None)
        return canon.get(q, q) if canon else q

    def _resolve_call(self, fi: FunctionInfo, call: ast.Call) -> str:
        """Qualified callee name of a call inside function `fi`.

        Repo callees: 'module:func' / 'module:Class.method' / 'module:Class' (constructor).
        External: dotted path ('torch.nan_to_num').  Method on unknown receiver: '?.name'.
        """
        f = call.func
        mi = fi.module
        if isinstance(f, ast.Name):
            # nested function of the enclosing function?
            q = f"{fi.qualname}.<locals>.{f.id}"
            if q in self.functions:
                return q
            r = self.resolve_expr_name(mi, f)
            if r:
                return r
            return f"builtins.{f.id}"
        if isinstance(f, ast.Attribute):
            # self.method(...) / cls.method(...)
            if isinstance(f.value, ast.Name) and f.value.id in ("self", "cls") and fi.cls is not None:
                m = self.lookup_method(fi.cls, f.attr)
                if m is not None:
                    return m.qualname
                return f"self.{f.attr}"
            if (
                isinstance(f.value, ast.Call)
                and isinstance(f.value.func, ast.Name)
                and f.value.func.id == "super"
                and fi.cls is not None
            ):
                for c in self.mro(fi.cls)[1:]:
                    if f.attr in c.methods:
                        return c.methods[f.attr].qualname
                ext = self.external_bases(fi.cls)
                return f"{ext[0] if ext else 'object'}.{f.attr}"
            r = self.resolve_expr_name(mi, f)
            if r:
                return r
            return f"?.{f.attr}"
        return "?"

    # ------------------------------------------------------------- utilities
    def calls_in(self, fi: FunctionInfo, include_nested: bool = False) -> Iterator[Tuple[ast.Call, str]]:
        for node in walk_function(fi.node, include_nested):
            if isinstance(node, ast.Call):
                yield node, self.resolve_call(fi, node)

    def all_functions(self) -> Iterable[FunctionInfo]:
        """Every function of the program, except helpers that were absorbed into their callers (core/inline.py): their
        statements are analysed where they execute, under the caller's name - listing them again would report one
        construct twice, the second time in a function no reference table knows."""
        absorbed = {callee for _, callee in getattr(self, "inlined", [])}
        return [f for q, f in self.functions.items() if q not in absorbed]

    def digest_of(self, module_names: Iterable[str]) -> str:
        h = hashlib.sha256()
        for n in sorted(set(module_names)):
            if n in self.modules:
                h.update(n.encode())
                h.update(self.modules[n].digest.encode())
        return h.hexdigest()[:16]

    def total_digest(self) -> str:
        return self.digest_of(self.modules.keys())


def walk_function(fn: ast.AST, include_nested: bool = False) -> Iterator[ast.AST]:
    """ast.walk restricted to the body of one function (not nested defs/classes/lambdas)."""
    todo = list(ast.iter_child_nodes(fn))
    while todo:
        n = todo.pop()
        yield n
        if not include_nested and isinstance(
            n, (ast.FunctionDef, ast.AsyncFunctionDef, ast.ClassDef, ast.Lambda)
        ):
            continue
        todo.extend(ast.iter_child_nodes(n))


def enclosing_stmt(node: ast.AST) -> ast.stmt:
    cur = node
    while not isinstance(cur, ast.stmt):
        cur = cur._parent  # type: ignore[attr-defined]
    return cur


def ancestors(node: ast.AST) -> Iterator[ast.AST]:
    cur = getattr(node, "_parent", None)
    while cur is not None:
        yield cur
        cur = getattr(cur, "_parent", None)


def is_const(node: ast.AST, value=...) -> bool:
    if not isinstance(node, ast.Constant):
        return False
    return True if value is ... else (node.value == value and type(node.value) is type(value))


def attr_chain(node: ast.AST) -> Optional[List[str]]:
    """['self','config','trainer_config','wandb','api_key'] for attribute/subscript-constant chains."""
    parts: List[str] = []
    cur = node
    while True:
        if isinstance(cur, ast.Attribute):
            parts.append(cur.attr)
            cur = cur.value
        elif isinstance(cur, ast.Subscript) and isinstance(cur.slice, ast.Constant) and isinstance(cur.slice.value, str):
            parts.append(cur.slice.value)
            cur = cur.value
        elif isinstance(cur, ast.Name):
            parts.append(cur.id)
            break
        else:
            return None
    parts.reverse()
    return parts
