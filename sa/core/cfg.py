"""Statement-level control-flow graph with exceptional edges, finally duplication,
and cut-based dominance queries.  Built from `ast` only.

Node kinds: entry, exit (normal return / fall off the end), raise (exceptional exit),
stmt (simple statement), test (condition of if/while, iterator step of for, with-items),
except (entry of a handler), join (entry of a duplicated `finally` copy).

`finally` bodies are duplicated once per kind of completion that runs through them
(normal, raise, return, break@loop, continue@loop), like CPython compiles them, so that
"the sentinel is put on every exit" is a plain graph property.
"""

from __future__ import annotations

import ast
from dataclasses import dataclass, field
from typing import Callable, Dict, Iterable, List, Optional, Set, Tuple

import networkx as nx

from .program import AnalysisError, norm


@dataclass
class Node:
    id: int
    kind: str
    ast: Optional[ast.AST] = None
    note: str = ""

    @property
    def lineno(self) -> int:
        return getattr(self.ast, "lineno", 0) if self.ast is not None else 0

    def __repr__(self) -> str:  # pragma: no cover
        t = norm(self.ast)[:60] if self.ast is not None else ""
        return f"<{self.id}:{self.kind}:{self.lineno}:{t}>"


class _Loop:
    def __init__(self, head: int):
        self.head = head
        self.breaks: Set[int] = set()


class _Try:
    def __init__(self, handler_nodes: List[int], catch_all: bool):
        self.handler_nodes = handler_nodes
        self.catch_all = catch_all


class _Finally:
    def __init__(self, body: List[ast.stmt]):
        self.body = body
        self.copies: Dict[Tuple, int] = {}


_SIMPLE_NO_RAISE = (ast.Pass, ast.Break, ast.Continue, ast.Global, ast.Nonlocal)


def may_raise(st: ast.AST) -> bool:
    if isinstance(st, _SIMPLE_NO_RAISE):
        return False
    if isinstance(st, ast.Expr) and isinstance(st.value, ast.Constant):
        return False  # docstring
    if isinstance(st, ast.Assign) and all(isinstance(t, ast.Name) for t in st.targets):
        if isinstance(st.value, (ast.Constant, ast.Name)):
            return False
        if isinstance(st.value, (ast.List, ast.Tuple, ast.Dict)) and not any(
            isinstance(n, (ast.Call, ast.Subscript, ast.Attribute, ast.BinOp)) for n in ast.walk(st.value)
        ):
            return False
    return True


class CFG:
    def __init__(self, fn: ast.AST, exception_is_catch_all: bool = False):
        """`exception_is_catch_all`: treat `except Exception` as catching everything
        (the fault model 'a read fails with an ordinary exception')."""
        self.fn = fn
        self.g = nx.DiGraph()
        self.nodes: Dict[int, Node] = {}
        self.ast2nodes: Dict[int, List[int]] = {}
        self._exc_all = exception_is_catch_all
        self._frames: List[object] = []
        self.entry = self._new("entry")
        self.exit = self._new("exit")
        self.raise_exit = self._new("raise")
        ends = self._block(fn.body, {self.entry})
        self._connect(ends, self.exit)

    # ------------------------------------------------------------ building
    def _new(self, kind: str, node: Optional[ast.AST] = None, note: str = "") -> int:
        i = len(self.nodes)
        self.nodes[i] = Node(i, kind, node, note)
        self.g.add_node(i)
        if node is not None:
            self.ast2nodes.setdefault(id(node), []).append(i)
        return i

    def _edge(self, a: int, b: int, label: str = "") -> None:
        if self.g.has_edge(a, b):
            if label and label not in self.g[a][b]["labels"]:
                self.g[a][b]["labels"].add(label)
        else:
            self.g.add_edge(a, b, labels={label} if label else set())

    def _connect(self, preds: Iterable, n: int) -> None:
        for p in preds:
            if isinstance(p, tuple):
                self._edge(p[0], n, p[1])
            else:
                self._edge(p, n)

    def _block(self, stmts: List[ast.stmt], preds: Set) -> Set:
        cur = set(preds)
        for st in stmts:
            if not cur:
                # unreachable code: still build it so that AST->node maps exist
                cur = set()
            cur = self._stmt(st, cur)
        return cur

    def _abrupt(self, src: int, kind: str, loop: Optional[_Loop] = None) -> None:
        """Route an abrupt completion (raise/return/break/continue) outward."""
        srcs = {src}
        for fr in reversed(self._frames):
            if isinstance(fr, _Try):
                if kind == "raise":
                    for h in fr.handler_nodes:
                        for s in srcs:
                            self._edge(s, h, "exc")
                    if fr.catch_all:
                        return
            elif isinstance(fr, _Finally):
                key = (kind, id(loop) if loop is not None else None)
                if key in fr.copies:
                    j = fr.copies[key]
                    for s in srcs:
                        self._edge(s, j, "exc" if kind == "raise" else kind)
                    return  # the copy was already routed outward when created
                j = self._new("join", None, f"finally[{kind}]")
                fr.copies[key] = j
                for s in srcs:
                    self._edge(s, j, "exc" if kind == "raise" else kind)
                # build the copy with the frames *outside* this finally
                idx = self._frames.index(fr)
                saved = self._frames
                self._frames = saved[:idx]
                ends = self._block(fr.body, {j})
                # continue outward from the ends of the copy
                tail = self._new("join", None, f"finally-end[{kind}]")
                self._connect(ends, tail)
                self._abrupt_from_frames(tail, kind, loop)
                self._frames = saved
                return
            elif isinstance(fr, _Loop):
                if kind in ("break", "continue") and fr is loop:
                    for s in srcs:
                        if kind == "break":
                            fr.breaks.add(s)
                        else:
                            self._edge(s, fr.head, "continue")
                    return
        for s in srcs:
            if kind == "raise":
                self._edge(s, self.raise_exit, "exc")
            elif kind == "return":
                self._edge(s, self.exit, "return")
            else:  # pragma: no cover
                raise AnalysisError(f"{kind} outside loop")

    def _abrupt_from_frames(self, src: int, kind: str, loop: Optional[_Loop]) -> None:
        self._abrupt(src, kind, loop)

    def _innermost_loop(self) -> _Loop:
        for fr in reversed(self._frames):
            if isinstance(fr, _Loop):
                return fr
        raise AnalysisError("break/continue outside loop")

    def _raise_edge(self, n: int) -> None:
        self._abrupt(n, "raise")

    def _stmt(self, st: ast.stmt, preds: Set) -> Set:
        if isinstance(st, (ast.FunctionDef, ast.AsyncFunctionDef, ast.ClassDef)):
            n = self._new("stmt", st, "def")
            self._connect(preds, n)
            return {n}
        if isinstance(st, ast.If):
            t = self._new("test", st)
            self._connect(preds, t)
            self._raise_edge(t)
            a = self._block(st.body, {(t, "true")})
            b = self._block(st.orelse, {(t, "false")}) if st.orelse else {(t, "false")}
            return a | b
        if isinstance(st, (ast.While,)):
            t = self._new("test", st)
            self._connect(preds, t)
            self._raise_edge(t)
            lp = _Loop(t)
            self._frames.append(lp)
            ends = self._block(st.body, {(t, "true")})
            self._frames.pop()
            self._connect(ends, t)
            const_true = isinstance(st.test, ast.Constant) and bool(st.test.value)
            out: Set = set()
            if not const_true:
                out = self._block(st.orelse, {(t, "false")}) if st.orelse else {(t, "false")}
            return out | lp.breaks
        if isinstance(st, (ast.For, ast.AsyncFor)):
            t = self._new("test", st)
            self._connect(preds, t)
            self._raise_edge(t)
            lp = _Loop(t)
            self._frames.append(lp)
            ends = self._block(st.body, {(t, "true")})
            self._frames.pop()
            self._connect(ends, t)
            out = self._block(st.orelse, {(t, "false")}) if st.orelse else {(t, "false")}
            return out | lp.breaks
        if isinstance(st, (ast.With, ast.AsyncWith)):
            t = self._new("test", st)
            self._connect(preds, t)
            self._raise_edge(t)
            return self._block(st.body, {t})
        if isinstance(st, ast.Try) or st.__class__.__name__ == "TryStar":
            fin = None
            if st.finalbody:
                fin = _Finally(st.finalbody)
                self._frames.append(fin)
            hnodes = [self._new("except", h) for h in st.handlers]
            catch_all = any(self._is_catch_all(h) for h in st.handlers)
            tr = _Try(hnodes, catch_all)
            self._frames.append(tr)
            ends = self._block(st.body, preds)
            self._frames.pop()
            if st.orelse:
                ends = self._block(st.orelse, ends)
            for h, hn in zip(st.handlers, hnodes):
                ends |= self._block(h.body, {hn})
            if fin is not None:
                self._frames.pop()
                ends = self._block(st.finalbody, ends)
            return ends
        if isinstance(st, ast.Match):  # pragma: no cover
            raise AnalysisError("match statement not modelled")
        # simple statements
        n = self._new("stmt", st)
        self._connect(preds, n)
        if isinstance(st, ast.Return):
            if st.value is not None and may_raise(ast.Expr(st.value)):
                self._raise_edge(n)
            self._abrupt(n, "return")
            return set()
        if isinstance(st, ast.Raise):
            self._abrupt(n, "raise")
            return set()
        if isinstance(st, ast.Break):
            self._abrupt(n, "break", self._innermost_loop())
            return set()
        if isinstance(st, ast.Continue):
            self._abrupt(n, "continue", self._innermost_loop())
            return set()
        if may_raise(st):
            self._raise_edge(n)
        return {n}

    def _is_catch_all(self, h: ast.ExceptHandler) -> bool:
        if h.type is None:
            return True
        names = []
        if isinstance(h.type, ast.Tuple):
            names = [norm(e) for e in h.type.elts]
        else:
            names = [norm(h.type)]
        if "BaseException" in names:
            return True
        if self._exc_all and "Exception" in names:
            return True
        return False

    # ------------------------------------------------------------- queries
    def nodes_of(self, node: ast.AST) -> List[int]:
        return list(self.ast2nodes.get(id(node), []))

    def nodes_where(self, pred: Callable[[Node], bool]) -> Set[int]:
        return {i for i, n in self.nodes.items() if pred(n)}

    def stmt_nodes_containing(self, inner: ast.AST) -> List[int]:
        """CFG nodes of the statement (or test) that syntactically contains `inner`."""
        cur = inner
        while cur is not None:
            if id(cur) in self.ast2nodes:
                # for compound statements the node stands for the test/iter only
                return list(self.ast2nodes[id(cur)])
            cur = getattr(cur, "_parent", None)
        return []

    def reachable_from(self, srcs: Iterable[int], avoid: Iterable[int] = ()) -> Set[int]:
        avoid = set(avoid)
        seen: Set[int] = set()
        todo = [s for s in srcs if s not in avoid]
        while todo:
            n = todo.pop()
            if n in seen:
                continue
            seen.add(n)
            for m in self.g.successors(n):
                if m not in avoid and m not in seen:
                    todo.append(m)
        return seen

    def live_nodes(self) -> Set[int]:
        return self.reachable_from([self.entry])

    def must_pass(self, srcs: Iterable[int], dsts: Iterable[int], via: Iterable[int],
                  drop_edge: Optional[Callable[[int, int, Set[str]], bool]] = None) -> Optional[List[int]]:
        """None if every path src->dst passes through `via`; else a witness path avoiding it.

        `drop_edge(a, b, labels)` removes edges from consideration (e.g. exceptional edges
        leaving the statements of a `finally` body)."""
        via = set(via)
        dsts = set(dsts) - via
        g = self.g
        if drop_edge is not None:
            g = nx.DiGraph()
            g.add_nodes_from(self.g.nodes)
            for a, b, d in self.g.edges(data=True):
                if not drop_edge(a, b, d["labels"]):
                    g.add_edge(a, b)
        sub = g.subgraph([n for n in g.nodes if n not in via])
        for s in srcs:
            if s in via:
                continue
            for d in dsts:
                if s in sub and d in sub and nx.has_path(sub, s, d):
                    return nx.shortest_path(sub, s, d)
        return None

    def dominated_by(self, target: int, via: Iterable[int]) -> Optional[List[int]]:
        return self.must_pass([self.entry], [target], via)

    def exits(self, normal: bool = True, exceptional: bool = True) -> List[int]:
        out = []
        if normal:
            out.append(self.exit)
        if exceptional:
            out.append(self.raise_exit)
        return out

    def path_str(self, path: List[int]) -> str:
        parts = []
        for i in path:
            n = self.nodes[i]
            if n.kind in ("entry", "exit", "raise"):
                parts.append(n.kind)
            elif n.kind == "join":
                parts.append(n.note)
            else:
                parts.append(f"L{n.lineno}")
        return " -> ".join(parts)

    def forward(self, init, transfer: Callable[[Node, object], object], join: Callable[[object, object], object],
                edge_transfer: Optional[Callable[[Node, Node, Set[str], object], object]] = None,
                start: Optional[int] = None) -> Dict[int, object]:
        """Generic forward may-dataflow; returns IN state per node (absent = unreachable).

        `edge_transfer(src, dst, labels, out_state)` refines the state along one edge
        (branch-sensitive facts); returning None kills the edge."""
        start = self.entry if start is None else start
        IN: Dict[int, object] = {start: init}
        work = [start]
        while work:
            n = work.pop()
            out = transfer(self.nodes[n], IN[n])
            for m in self.g.successors(n):
                o = out
                if edge_transfer is not None:
                    o = edge_transfer(self.nodes[n], self.nodes[m], self.g[n][m]["labels"], out)
                    if o is None:
                        continue
                new = o if m not in IN else join(IN[m], o)
                if m not in IN or new != IN[m]:
                    IN[m] = new
                    work.append(m)
        return IN

    def stats(self) -> Dict[str, int]:
        return {"cfg_nodes": self.g.number_of_nodes(), "cfg_edges": self.g.number_of_edges()}
