"""Normalisation: absorb helper functions that did not exist on the reference tree into their callers.

Most rules of sa/props describe ONE function ("the Gaussian is computed from ..., then scrubbed").  A maintainer who
extracts part of such a function into a new private helper leaves the behaviour unchanged but moves the statements the
rule talks about somewhere else.  Instead of teaching every rule to follow calls, the program model undoes the
extraction: a call to a function that is NOT in the reference table of function names (sa/known_functions.json: the
functions that exist on the tree the rules were written against) is replaced by the callee's body, parameters
substituted.  Inlining a call is semantics-preserving under the conditions checked below, so the table only decides
WHERE the normalisation is applied, never what a rule accepts.

Conditions for inlining a call site (otherwise it is left alone, and rules see the call as before):
  callee   : plain def (no decorator except staticmethod/classmethod), no *args/**kwargs, not a generator, not
             recursive, exactly one `return` and it is the last statement (or no return at all);
  call     : positional/keyword arguments only (no * / **), resolved to a module-level function of the same module, an
             imported repository function, or a method reached as self.m(...) / cls.m(...) / ClassName.m(...);
  position : the call is the whole right-hand side of an assignment, the operand of `return`, an expression statement,
             or occurs inside a simple statement (then the body is hoisted in front of that statement); a callee whose
             body is a single `return <expr>` is substituted anywhere, including comprehensions.
Callee locals keep their names (extract-method refactorings keep them, and rules may mention them); parameters are
replaced by the argument expressions, or bound to fresh names when the callee re-binds them.
"""

from __future__ import annotations

import ast
import copy
import json
import os
from typing import Dict, List, Optional, Set, Tuple

KNOWN_FILE = os.path.join(os.path.dirname(os.path.dirname(os.path.abspath(__file__))), "known_functions.json")


class _Line(float):
    """Line number of an inlined node: orders strictly between the statement before the call and the statement holding
    the call (rules compare line numbers for order) and prints as the call's line."""

    def __new__(cls, value: float, shown: int):
        o = super().__new__(cls, value)
        o.shown = shown
        return o

    def __str__(self):
        return str(self.shown)

    __repr__ = __str__

    def __format__(self, spec):
        return format(self.shown, spec)


def _renumber(stmts, host_line, shown: int) -> None:
    """Give the inlined statements increasing line numbers in (host_line - 1, host_line)."""
    order = []

    def pre(block):
        for st in block:
            order.append(st)
            for fld in ("body", "handlers", "orelse", "finalbody"):
                sub = getattr(st, fld, None)
                if isinstance(sub, list) and sub and isinstance(sub[0], (ast.stmt, ast.excepthandler)):
                    pre(sub)

    pre(stmts)
    n_ = len(order) + 1
    lo = float(host_line) - 1.0
    for k, st in enumerate(order):
        ln = _Line(lo + (k + 1) / (n_ + 1), shown)
        for sub in ast.walk(st):
            if hasattr(sub, "lineno") and not (isinstance(sub, (ast.stmt, ast.excepthandler)) and sub is not st):
                pass
        st.lineno = ln
    # expressions take the line of their statement
    for st in order:
        for ch in ast.iter_child_nodes(st):
            _set_expr_lines(ch, st.lineno)


def _set_expr_lines(node, ln) -> None:
    if isinstance(node, (ast.stmt, ast.excepthandler)):
        return
    if hasattr(node, "lineno") or isinstance(node, ast.expr):
        node.lineno = ln
    for ch in ast.iter_child_nodes(node):
        _set_expr_lines(ch, ln)


def clone(node):
    """Deep copy of an AST without following the `_parent` back-pointers set by the program model."""
    if isinstance(node, ast.AST):
        new = node.__class__()
        for f in node._fields:
            if hasattr(node, f):
                setattr(new, f, clone(getattr(node, f)))
        for a in ("lineno", "col_offset", "end_lineno", "end_col_offset"):
            if hasattr(node, a):
                setattr(new, a, getattr(node, a))
        return new
    if isinstance(node, list):
        return [clone(x) for x in node]
    return node


def load_known() -> Optional[Set[str]]:
    try:
        return set(json.load(open(KNOWN_FILE))["functions"])
    except Exception:
        return None


def load_known_full() -> Dict[str, Dict]:
    try:
        f = json.load(open(KNOWN_FILE))["functions"]
        return f if isinstance(f, dict) else {}
    except Exception:
        return {}


def _is_generator(fn: ast.AST) -> bool:
    for n in ast.walk(fn):
        if isinstance(n, (ast.Yield, ast.YieldFrom)):
            return True
    return False


def _own_nodes(fn: ast.AST):
    """Nodes of fn's body without nested defs/lambdas/classes."""
    todo = list(fn.body)
    while todo:
        n = todo.pop()
        yield n
        for ch in ast.iter_child_nodes(n):
            if isinstance(ch, (ast.FunctionDef, ast.AsyncFunctionDef, ast.ClassDef, ast.Lambda)):
                continue
            todo.append(ch)


def _body_without_doc(fn: ast.AST) -> List[ast.stmt]:
    body = list(fn.body)
    if body and isinstance(body[0], ast.Expr) and isinstance(body[0].value, ast.Constant) and isinstance(body[0].value.value, str):
        body = body[1:]
    return body


def inlinable(fn: ast.AST) -> Optional[str]:
    """None if the callee can be inlined, else the reason."""
    if not isinstance(fn, ast.FunctionDef):
        return "not a plain def"
    for d in fn.decorator_list:
        if not (isinstance(d, ast.Name) and d.id in ("staticmethod", "classmethod")):
            return "decorated"
    a = fn.args
    if a.vararg or a.kwarg:
        return "varargs"
    if _is_generator(fn):
        return "generator"
    rets = [n for n in _own_nodes(fn) if isinstance(n, ast.Return)]
    body = _body_without_doc(fn)
    if len(rets) > 1:
        return "several returns"
    if len(rets) == 1 and (not body or body[-1] is not rets[0]):
        return "return is not the last statement"
    for n in _own_nodes(fn):
        if isinstance(n, (ast.Global, ast.Nonlocal)):
            return "global/nonlocal"
        if isinstance(n, ast.Call) and isinstance(n.func, ast.Name) and n.func.id == fn.name:
            return "recursive"
    return None


def _has_return(node) -> bool:
    for n in ast.walk(node):
        if isinstance(n, ast.Return):
            return True
    return False


def _always_returns(block) -> bool:
    if not block:
        return False
    last = block[-1]
    if isinstance(last, ast.Return):
        return True
    if isinstance(last, ast.If):
        return _always_returns(last.body) and _always_returns(last.orelse)
    return False


def tailify(block):
    """Rewrite a statement list so that every `return` is in tail position (guard clauses become if/else with the
    remaining statements moved into the non-returning arms).  None if a return sits inside a loop/try/with."""
    out = []
    for i, st in enumerate(block):
        if isinstance(st, ast.Return):
            out.append(st)
            return out
        if isinstance(st, ast.If):
            if not _has_return(st):
                out.append(st)
                continue
            body_t, else_t = tailify(st.body), tailify(st.orelse)
            rest_t = tailify(block[i + 1:])
            if body_t is None or else_t is None or rest_t is None:
                return None
            b_ret, e_ret = _always_returns(body_t), _always_returns(else_t)
            new = ast.If(test=st.test, body=body_t if b_ret else body_t + clone(rest_t), orelse=else_t if e_ret else else_t + clone(rest_t))
            ast.copy_location(new, st)
            if not new.body:
                new.body = [ast.Pass()]
            out.append(new)
            return out
        if isinstance(st, (ast.For, ast.AsyncFor, ast.While, ast.Try, ast.With, ast.AsyncWith)) and _has_return(st):
            return None
        if isinstance(st, (ast.FunctionDef, ast.AsyncFunctionDef, ast.ClassDef)):
            out.append(st)
            continue
        out.append(st)
    return out


def inlinable_multi(fn: ast.AST) -> Optional[str]:
    """Like inlinable(), for callees with several returns: possible when every return can be brought to tail position."""
    if not isinstance(fn, ast.FunctionDef):
        return "not a plain def"
    for d in fn.decorator_list:
        if not (isinstance(d, ast.Name) and d.id in ("staticmethod", "classmethod")):
            return "decorated"
    a = fn.args
    if a.vararg or a.kwarg:
        return "varargs"
    if _is_generator(fn):
        return "generator"
    for n in _own_nodes(fn):
        if isinstance(n, (ast.Global, ast.Nonlocal)):
            return "global/nonlocal"
        if isinstance(n, ast.Call) and isinstance(n.func, ast.Name) and n.func.id == fn.name:
            return "recursive"
    for n in ast.walk(fn):
        if isinstance(n, (ast.FunctionDef, ast.AsyncFunctionDef, ast.Lambda)) and n is not fn and _has_return(n) and isinstance(n, ast.Lambda) is False:
            return "nested def with return"
    if tailify(_body_without_doc(fn)) is None:
        return "return inside a loop/try/with"
    return None


class _Subst(ast.NodeTransformer):
    def __init__(self, mapping: Dict[str, ast.AST]):
        self.mapping = mapping

    def visit_Name(self, node: ast.Name):
        if node.id in self.mapping and isinstance(node.ctx, ast.Load):
            return clone(self.mapping[node.id])
        if node.id in self.mapping and isinstance(self.mapping[node.id], ast.Name):
            return ast.copy_location(ast.Name(id=self.mapping[node.id].id, ctx=node.ctx), node)
        return node


def _assigned_names(fn: ast.AST) -> Set[str]:
    out: Set[str] = set()
    for n in _own_nodes(fn):
        if isinstance(n, ast.Name) and isinstance(n.ctx, (ast.Store, ast.Del)):
            out.add(n.id)
    return out


def _bind(fn: ast.FunctionDef, call: ast.Call, drop_first: bool) -> Optional[Dict[str, ast.AST]]:
    a = fn.args
    params = [x.arg for x in a.posonlyargs + a.args]
    if drop_first:
        params = params[1:]
    if any(isinstance(x, ast.Starred) for x in call.args) or any(k.arg is None for k in call.keywords):
        return None
    if len(call.args) > len(params):
        return None
    out: Dict[str, ast.AST] = {}
    for p, v in zip(params, call.args):
        out[p] = v
    kwonly = [x.arg for x in a.kwonlyargs]
    for k in call.keywords:
        if k.arg in out or (k.arg not in params and k.arg not in kwonly):
            return None
        out[k.arg] = k.value
    allpos = a.posonlyargs + a.args
    defaults = dict(zip([x.arg for x in allpos[len(allpos) - len(a.defaults):]], a.defaults))
    for x, d in zip(a.kwonlyargs, a.kw_defaults):
        if d is not None:
            defaults[x.arg] = d
    for p in params + kwonly:
        if p not in out:
            if p not in defaults:
                return None
            out[p] = defaults[p]
    return out


def _load_counts(fn: ast.AST) -> Dict[str, int]:
    out: Dict[str, int] = {}
    for n in ast.walk(fn):
        if isinstance(n, ast.Name) and isinstance(n.ctx, ast.Load):
            out[n.id] = out.get(n.id, 0) + 1
    return out


def _simple_operand(e: ast.AST) -> bool:
    """Reading it twice is the same as reading it once: names, constants, attribute chains, constant subscripts of those."""
    if isinstance(e, (ast.Name, ast.Constant)):
        return True
    if isinstance(e, ast.Attribute):
        return _simple_operand(e.value)
    if isinstance(e, ast.Subscript):
        return _simple_operand(e.value) and _simple_operand(e.slice)
    if isinstance(e, ast.UnaryOp):
        return _simple_operand(e.operand)
    if isinstance(e, (ast.Tuple, ast.List)):
        return all(_simple_operand(x) for x in e.elts)
    return False


class Inliner:
    def __init__(self, prog, known: Set[str], max_rounds: int = 3):
        self.prog = prog
        self.known = known
        self.max_rounds = max_rounds
        self.count = 0
        self.log: List[Tuple[str, str]] = []
        self._tmp = 0
        self._intro: Dict[str, Set[str]] = {}
        self._cur_targets: Set[str] = set()

    def _fresh_locals(self, fi, fn: ast.AST, body: List[ast.stmt], extra: List[ast.AST]) -> None:
        """Rename (in place) the callee's own locals that clash with a local brought in by an EARLIER absorbed call in the same
        host STATEMENT: two calls of one helper (area(a) + area(b)) must not share their temporaries.  A local that has the name of
        the variable the host statement assigns is left alone (x = helper() whose result variable is also called x)."""
        # (A clash with one of the host's ORIGINAL names is left as it is: after an extract-method refactoring the helper's
        # locals are the host's former locals, and the rules know them by those names.)
        taken = self._intro.setdefault(fi.qualname, set()) - self._cur_targets
        comp_scoped = {n.id for c in ast.walk(fn) if isinstance(c, ast.comprehension) for n in ast.walk(c.target) if isinstance(n, ast.Name)}
        own = _assigned_names(fn) - comp_scoped
        ren: Dict[str, str] = {}
        for nm in sorted(own):
            if nm in taken:
                self._tmp += 1
                ren[nm] = f"{nm}__{self._tmp}"
        if ren:
            for root in list(body) + [e for e in extra if e is not None]:
                for n in ast.walk(root):
                    if isinstance(n, ast.Name) and n.id in ren:
                        n.id = ren[n.id]
        self._intro[fi.qualname] |= {ren.get(nm, nm) for nm in own}

    # ------------------------------------------------------------ resolution
    def _callee(self, fi, call: ast.Call, multi: bool = False):
        """(FunctionInfo, receiver_expr_or_None, drop_first) for a call that resolves to a NEW repository function."""
        f = call.func
        prog = self.prog
        target = None
        recv = None
        drop = False
        if isinstance(f, ast.Name):
            if fi.module.functions.get(f.id) is not None:
                target = fi.module.functions[f.id]
            else:
                q = prog.resolve_expr_name(fi.module, f)
                if q and q.startswith("sleap_nn."):
                    mod, _, name = q.rpartition(".")
                    target = prog.functions.get(f"{mod}:{name}")
            # nested helper defined in an enclosing function
            if target is None:
                p = fi
                while p is not None and target is None:
                    target = prog.functions.get(f"{p.qualname}.<locals>.{f.id}")
                    p = p.parent_func
        elif isinstance(f, ast.Attribute) and isinstance(f.value, ast.Name):
            owner = fi
            while owner is not None and owner.cls is None:
                owner = owner.parent_func
            if f.value.id in ("self", "cls") and owner is not None:
                target = prog.lookup_method(owner.cls, f.attr)
                if target is not None:
                    decos = [d.id for d in target.node.decorator_list if isinstance(d, ast.Name)]
                    drop = "staticmethod" not in decos
                    recv = f.value
            else:
                ci = fi.module.classes.get(f.value.id)
                if ci is not None:
                    target = prog.lookup_method(ci, f.attr)
                    if target is not None:
                        decos = [d.id for d in target.node.decorator_list if isinstance(d, ast.Name)]
                        if "staticmethod" in decos:
                            drop = False
                        elif "classmethod" in decos:
                            drop, recv = True, f.value
                        else:
                            target = None
        if target is None or target.qualname in self.known or target is fi:
            return None
        if inlinable(target.node) is not None and not (multi and inlinable_multi(target.node) is None):
            return None
        return target, recv, drop

    # ------------------------------------------------------------- expansion
    def _expand(self, fi, call: ast.Call) -> Optional[Tuple[List[ast.stmt], Optional[ast.AST]]]:
        r = self._callee(fi, call)
        if r is None:
            return None
        target, recv, drop = r
        fn = target.node
        binding = _bind(fn, call, drop)
        if binding is None:
            return None
        if drop:
            first = (fn.args.posonlyargs + fn.args.args)[0].arg
            binding[first] = recv
        rebound = _assigned_names(fn)
        pre: List[ast.stmt] = []
        mapping: Dict[str, ast.AST] = {}
        uses = _load_counts(fn)
        for p, v in binding.items():
            if p in rebound or (uses.get(p, 0) > 1 and not _simple_operand(v)):
                self._tmp += 1
                t = f"{p}"
                # the callee re-binds its parameter, or reads a computed argument more than once: bind the argument to
                # the parameter's own name first (evaluated once, as in the call)
                if not (isinstance(v, ast.Name) and v.id == p):
                    pre.append(ast.Assign(targets=[ast.Name(id=t, ctx=ast.Store())], value=clone(v), lineno=call.lineno, col_offset=0))
            else:
                mapping[p] = v
        body = [clone(s) for s in _body_without_doc(fn)]
        ret_expr: Optional[ast.AST] = None
        if body and isinstance(body[-1], ast.Return):
            ret_expr = body[-1].value
            body = body[:-1]
        self._fresh_locals(fi, fn, body + [t_ for p_ in pre for t_ in p_.targets], [ret_expr])
        sub = _Subst(mapping)
        body = [sub.visit(s) for s in body]
        if ret_expr is not None:
            ret_expr = sub.visit(ret_expr)
        self.count += 1
        self.log.append((fi.qualname, target.qualname))
        return pre + body, ret_expr

    def _needs_lowering(self, fi, comp: ast.ListComp) -> bool:
        for n in ast.walk(comp.elt):
            if isinstance(n, ast.Call):
                r = self._callee(fi, n, multi=True)
                if r is not None:
                    body = _body_without_doc(r[0].node)
                    if not (len(body) == 1 and isinstance(body[0], ast.Return)):
                        return True
        return False

    def _expand_multi(self, fi, call: ast.Call, sink) -> Optional[List[ast.stmt]]:
        """Inline a callee with several returns at a statement-level call: every `return e` becomes sink(e)."""
        r = self._callee(fi, call, multi=True)
        if r is None:
            return None
        target, recv, drop = r
        fn = target.node
        if inlinable(fn) is None:
            return None  # the single-return path handles it
        binding = _bind(fn, call, drop)
        if binding is None:
            return None
        if drop:
            first = (fn.args.posonlyargs + fn.args.args)[0].arg
            binding[first] = recv
        rebound = _assigned_names(fn)
        pre: List[ast.stmt] = []
        mapping: Dict[str, ast.AST] = {}
        uses = _load_counts(fn)
        for p, v in binding.items():
            if p in rebound or (uses.get(p, 0) > 1 and not _simple_operand(v)):
                if not (isinstance(v, ast.Name) and v.id == p):
                    pre.append(ast.Assign(targets=[ast.Name(id=p, ctx=ast.Store())], value=clone(v), lineno=call.lineno, col_offset=0))
            else:
                mapping[p] = v
        body = tailify([clone(s) for s in _body_without_doc(fn)])
        if body is None:
            return None
        if not _always_returns(body):
            body = body + [ast.Return(value=None)]
            body = tailify(body) or body
        self._fresh_locals(fi, fn, body + [t_ for p_ in pre for t_ in p_.targets], [])
        sub = _Subst(mapping)
        body = [sub.visit(s) for s in body]

        class R(ast.NodeTransformer):
            def visit_Return(self, node):
                new = sink(node.value if node.value is not None else ast.Constant(value=None))
                if isinstance(new, ast.Assign) and len(new.targets) == 1 and isinstance(new.targets[0], ast.Name) and isinstance(new.value, ast.Name) \
                        and new.targets[0].id == new.value.id:
                    new = None  # x = x
                return ast.copy_location(new, node) if new is not None else ast.copy_location(ast.Pass(), node)

            def visit_FunctionDef(self, node):
                return node

            visit_Lambda = visit_AsyncFunctionDef = visit_FunctionDef

        body = [R().visit(s) for s in body]
        self.count += 1
        self.log.append((fi.qualname, target.qualname))
        return pre + body

    def _hoist_nested_multi(self, fi, st: ast.stmt) -> List[ast.stmt]:
        """A several-returns helper called INSIDE a larger expression (`sink(g(x_in=self._helper(a)))`) is first given a
        statement of its own - `_helper_value = self._helper(a)` in front of the host statement - which the statement-level
        path then absorbs.  Only unconditionally evaluated positions (not comprehension bodies, conditional arms, later and/or
        operands) of expressions the statement evaluates once."""
        if isinstance(st, (ast.Assign, ast.AnnAssign, ast.AugAssign, ast.Return, ast.Expr)):
            roots = [("value", st.value)] if getattr(st, "value", None) is not None else []
        elif isinstance(st, ast.If):
            roots = [("test", st.test)]
        elif isinstance(st, ast.For):
            roots = [("iter", st.iter)]
        else:
            return []
        pre: List[ast.stmt] = []

        def walk(e: ast.AST, is_root: bool, scoped: bool) -> ast.AST:
            if isinstance(e, (ast.ListComp, ast.SetComp, ast.DictComp, ast.GeneratorExp, ast.Lambda)):
                return e
            for fld, val in ast.iter_fields(e):
                if isinstance(val, ast.AST):
                    setattr(e, fld, walk(val, False, scoped or (isinstance(e, ast.IfExp) and fld in ("body", "orelse"))))
                elif isinstance(val, list):
                    late = isinstance(e, ast.BoolOp) and fld == "values"
                    setattr(e, fld, [walk(v, False, scoped or (late and k_ > 0)) if isinstance(v, ast.AST) else v for k_, v in enumerate(val)])
            stmt_level = is_root and isinstance(st, (ast.Assign, ast.AnnAssign, ast.Return, ast.Expr))
            if isinstance(e, ast.Call) and not scoped and not stmt_level and self._callee(fi, e) is None:
                r = self._callee(fi, e, multi=True)
                if r is not None:
                    self._tmp += 1
                    nm = f"{r[0].name.strip('_')}_value__{self._tmp}"
                    a = ast.Assign(targets=[ast.Name(id=nm, ctx=ast.Store())], value=e, lineno=st.lineno, col_offset=st.col_offset)
                    for n_ in ast.walk(a):
                        if not hasattr(n_, "lineno"):
                            n_.lineno = st.lineno
                            n_.col_offset = 0
                    pre.append(a)
                    return ast.copy_location(ast.Name(id=nm, ctx=ast.Load()), e)
            return e

        for fld, root in roots:
            setattr(st, fld, walk(root, True, False))
        return pre

    def _process_block(self, fi, stmts: List[ast.stmt]) -> List[ast.stmt]:
        out: List[ast.stmt] = []
        work = list(stmts)
        while work:
            st = work.pop(0)
            st = self._lower_conditional(fi, st)
            if not getattr(st, "_multi_hoisted", False):
                pre_ = self._hoist_nested_multi(fi, st)
                if pre_:
                    st._multi_hoisted = True
                    self.count += 1
                    work = pre_ + [st] + work
                    continue
            # recurse into compound statements first
            for fld in ("body", "orelse", "finalbody"):
                if hasattr(st, fld) and isinstance(getattr(st, fld), list) and not isinstance(st, (ast.FunctionDef, ast.AsyncFunctionDef, ast.ClassDef)):
                    setattr(st, fld, self._process_block(fi, getattr(st, fld)))
            if isinstance(st, ast.Try):
                for h in st.handlers:
                    h.body = self._process_block(fi, h.body)
            if isinstance(st, (ast.FunctionDef, ast.AsyncFunctionDef, ast.ClassDef)):
                out.append(st)
                continue
            # T = [f(x) for x in S] with a statement-bodied new helper f: lower the comprehension to an append loop first
            if isinstance(st, ast.Assign) and len(st.targets) == 1 and isinstance(st.targets[0], ast.Name) and isinstance(st.value, ast.ListComp) \
                    and len(st.value.generators) == 1 and self._needs_lowering(fi, st.value):
                comp = st.value
                g = comp.generators[0]
                tname = st.targets[0].id
                app = ast.Expr(value=ast.Call(func=ast.Attribute(value=ast.Name(id=tname, ctx=ast.Load()), attr="append", ctx=ast.Load()), args=[comp.elt], keywords=[]))
                body: List[ast.stmt] = [app]
                for cond in reversed(g.ifs):
                    body = [ast.If(test=cond, body=body, orelse=[])]
                loop = ast.For(target=g.target, iter=g.iter, body=body, orelse=[], lineno=st.lineno, col_offset=st.col_offset)
                init = ast.Assign(targets=[ast.Name(id=tname, ctx=ast.Store())], value=ast.List(elts=[], ctx=ast.Load()), lineno=st.lineno, col_offset=st.col_offset)
                for n_ in ast.walk(loop):
                    if not hasattr(n_, "lineno"):
                        n_.lineno = st.lineno
                        n_.col_offset = 0
                for n_ in ast.walk(init):
                    if not hasattr(n_, "lineno"):
                        n_.lineno = st.lineno
                        n_.col_offset = 0
                _renumber([init, loop], st.lineno + 1 if not isinstance(st.lineno, _Line) else st.lineno, int(st.lineno) if not isinstance(st.lineno, _Line) else st.lineno.shown)
                loop.body = self._process_block(fi, loop.body)
                self.count += 1
                out.extend([init, loop])
                continue
            self._intro[fi.qualname] = set()   # temporaries may be reused from one host statement to the next, not within one
            self._cur_targets = {n.id for t_ in (st.targets if isinstance(st, ast.Assign) else [getattr(st, "target", None)]) if t_ is not None
                                 for n in ast.walk(t_) if isinstance(n, ast.Name)}
            # statement-level call of a helper with several returns
            multi = None
            if isinstance(st, (ast.Assign, ast.AnnAssign, ast.Return, ast.Expr)) and isinstance(getattr(st, "value", None), ast.Call):
                if isinstance(st, ast.Assign):
                    tg = st.targets
                    multi = self._expand_multi(fi, st.value, lambda e, tg=tg: ast.Assign(targets=[clone(t) for t in tg], value=e))
                elif isinstance(st, ast.AnnAssign):
                    multi = self._expand_multi(fi, st.value, lambda e, st=st: ast.Assign(targets=[clone(st.target)], value=e))
                elif isinstance(st, ast.Return):
                    multi = self._expand_multi(fi, st.value, lambda e: ast.Return(value=e))
                else:
                    multi = self._expand_multi(fi, st.value, lambda e: ast.Expr(value=e) if not isinstance(e, (ast.Constant, ast.Name)) else None)
            if multi is not None:
                host = st.lineno
                _renumber(multi, host + 1 if not isinstance(host, _Line) else host, int(host) if not isinstance(host, _Line) else host.shown)
                out.extend(multi)
                continue
            hoisted: List[ast.stmt] = []
            # expressions evaluated once, before the statement's own blocks
            if isinstance(st, (ast.Assign, ast.AnnAssign, ast.AugAssign, ast.Return, ast.Expr)):
                roots = [("value", st.value)] if getattr(st, "value", None) is not None else []
            elif isinstance(st, ast.If):
                roots = [("test", st.test)]
            elif isinstance(st, ast.For):
                roots = [("iter", st.iter)]
            elif isinstance(st, ast.With):
                roots = []
            else:
                roots = []
            for fld, root in roots:
                new_root = self._rewrite_expr(fi, root, hoisted, top=True)
                setattr(st, fld, new_root)
            if hoisted:
                host = st.lineno
                _renumber(hoisted, host, int(host) if not isinstance(host, _Line) else host.shown)
            if hoisted and isinstance(st, ast.Assign) and len(st.targets) == 1 and isinstance(st.targets[0], ast.Name) and isinstance(st.value, ast.Name) \
                    and st.value.id == st.targets[0].id:
                out.extend(hoisted)  # x = helper(...) whose returned local is itself called x
                continue
            # a, b = helper(...) whose returned tuple is (a, b) / (y1, y2) of its own locals: the same, element by element
            if hoisted and isinstance(st, ast.Assign) and len(st.targets) == 1 and isinstance(st.targets[0], (ast.Tuple, ast.List)) and isinstance(st.value, (ast.Tuple, ast.List)) \
                    and len(st.targets[0].elts) == len(st.value.elts) and all(isinstance(e, ast.Name) for e in list(st.targets[0].elts) + list(st.value.elts)):
                xs = [e.id for e in st.targets[0].elts]
                ys = [e.id for e in st.value.elts]
                inside = {n.id for h in hoisted for n in ast.walk(h) if isinstance(n, ast.Name)}
                bound = {n.id for h in hoisted for n in ast.walk(h) if isinstance(n, ast.Name) and isinstance(n.ctx, ast.Store)}
                own = {id(n) for n in ast.walk(st)}
                host_names = {n.id for n in ast.walk(fi.node) if isinstance(n, ast.Name) and id(n) not in own} | {a.arg for a in ast.walk(fi.node) if isinstance(a, ast.arg)}
                ren = {}
                ok_all = len(set(xs)) == len(xs) and len(set(ys)) == len(ys)
                for x, y in zip(xs, ys):
                    if x == y:
                        continue
                    if y in bound and x not in inside and y not in host_names and x not in ys:
                        ren[y] = x
                    else:
                        ok_all = False
                if ok_all:
                    for h in hoisted:
                        for n in ast.walk(h):
                            if isinstance(n, ast.Name) and n.id in ren:
                                n.id = ren[n.id]
                    out.extend(hoisted)
                    continue
            # x = helper(...) where the helper returns its own local y: the absorbed body works on x directly
            if hoisted and isinstance(st, ast.Assign) and len(st.targets) == 1 and isinstance(st.targets[0], ast.Name) and isinstance(st.value, ast.Name) \
                    and st.value.id != st.targets[0].id:
                x, y = st.targets[0].id, st.value.id
                inside = {n.id for h in hoisted for n in ast.walk(h) if isinstance(n, ast.Name)}
                bound = {n.id for h in hoisted for n in ast.walk(h) if isinstance(n, ast.Name) and isinstance(n.ctx, ast.Store)}
                own = {id(n) for n in ast.walk(st)}
                host_names = {n.id for n in ast.walk(fi.node) if isinstance(n, ast.Name) and id(n) not in own} | {a.arg for a in ast.walk(fi.node) if isinstance(a, ast.arg)}
                if y in bound and x not in inside and y not in host_names:
                    for h in hoisted:
                        for n in ast.walk(h):
                            if isinstance(n, ast.Name) and n.id == y:
                                n.id = x
                    out.extend(hoisted)
                    continue
            # a, b, c = (expr, b, c): the identity components say nothing; the others are plain assignments (as long as no value
            # reads a name the statement itself assigns)
            if hoisted and isinstance(st, ast.Assign) and len(st.targets) == 1 and isinstance(st.targets[0], (ast.Tuple, ast.List)) and isinstance(st.value, (ast.Tuple, ast.List)) \
                    and len(st.targets[0].elts) == len(st.value.elts) and all(isinstance(e, ast.Name) for e in st.targets[0].elts):
                pairs = [(t_, v_) for t_, v_ in zip(st.targets[0].elts, st.value.elts) if not (isinstance(v_, ast.Name) and v_.id == t_.id)]
                assigned = {t_.id for t_, _ in pairs}
                if len(pairs) < len(st.value.elts) and not any({n.id for n in ast.walk(v_) if isinstance(n, ast.Name)} & assigned for _, v_ in pairs):
                    out.extend(hoisted)
                    for t_, v_ in pairs:
                        out.append(ast.copy_location(ast.Assign(targets=[ast.Name(id=t_.id, ctx=ast.Store())], value=v_), st))
                    continue
            # an expression statement whose value was a helper without return value
            if isinstance(st, ast.Expr) and isinstance(st.value, ast.Constant) and st.value.value is None and hoisted:
                out.extend(hoisted)
                continue
            out.extend(hoisted)
            out.append(st)
        return out

    def _statement_callee(self, fi, e: ast.AST) -> bool:
        """Does expression e contain a call of a new helper whose body has statements (not just `return <expr>`)?"""
        for c in ast.walk(e):
            if isinstance(c, ast.Call):
                r = self._callee(fi, c, multi=True)
                if r is not None:
                    body = _body_without_doc(r[0].node)
                    if not (len(body) == 1 and isinstance(body[0], ast.Return)):
                        return True
        return False

    def _lower_conditional(self, fi, st: ast.stmt) -> ast.stmt:
        """`T = (helper(...) if c else e)` with a statement-bodied helper: the helper's statements run only when c holds, so
        the statement is split into `if c: T = helper(...)` / `else: T = e` before anything is absorbed."""
        v = getattr(st, "value", None)
        if not (isinstance(st, (ast.Assign, ast.AnnAssign, ast.Return, ast.Expr)) and isinstance(v, ast.IfExp)):
            return st
        if not (self._statement_callee(fi, v.body) or self._statement_callee(fi, v.orelse)) or self._statement_callee(fi, v.test):
            return st

        def arm(val):
            a = clone(st)
            a.value = val
            return ast.copy_location(a, st)

        new = ast.copy_location(ast.If(test=v.test, body=[arm(v.body)], orelse=[arm(v.orelse)]), st)
        self.count += 1
        return new

    def _rewrite_expr(self, fi, e: ast.AST, hoisted: List[ast.stmt], top: bool, in_scope: bool = False) -> ast.AST:
        """Replace inlinable calls inside expression e; statements of the callee are appended to `hoisted`.
        Inside comprehensions/lambdas and in conditionally evaluated positions - the arms of a conditional expression,
        the later operands of and/or - (`in_scope`) only expression-bodied callees are substituted: hoisting the
        statements of such a call in front of the host statement would run them unconditionally."""
        if isinstance(e, (ast.ListComp, ast.SetComp, ast.DictComp, ast.GeneratorExp, ast.Lambda)):
            inner = True
        else:
            inner = in_scope
        for fld, val in ast.iter_fields(e):
            if isinstance(val, ast.AST):
                cond_pos = isinstance(e, ast.IfExp) and fld in ("body", "orelse")
                setattr(e, fld, self._rewrite_expr(fi, val, hoisted, False, inner or cond_pos))
            elif isinstance(val, list):
                late = isinstance(e, ast.BoolOp) and fld == "values"
                setattr(e, fld, [self._rewrite_expr(fi, v, hoisted, False, inner or (late and k_ > 0)) if isinstance(v, ast.AST) else v for k_, v in enumerate(val)])
        if isinstance(e, ast.Call):
            r = self._callee(fi, e)
            if r is not None:
                target = r[0]
                body = _body_without_doc(target.node)
                expr_only = len(body) == 1 and isinstance(body[0], ast.Return)
                if in_scope and not expr_only:
                    return e
                x = self._expand(fi, e)
                if x is not None:
                    stmts, ret = x
                    hoisted.extend(stmts)
                    return ret if ret is not None else ast.Constant(value=None)
        return e

    def run(self) -> int:
        total = 0
        for _ in range(self.max_rounds):
            before = self.count
            for fi in list(self.prog.functions.values()):
                fi.node.body = self._process_block(fi, fi.node.body)
            if self.count == before:
                break
            total = self.count
            from .program import _SplatLiterals

            for mi in self.prog.modules.values():
                _SplatLiterals().visit(mi.tree)
            self.prog._reindex()
        return self.count
