"""Run one property check (and, in the thorough tier, its two-way self-test)."""

from __future__ import annotations

import importlib
import json
import os
import time
from dataclasses import dataclass
from typing import Dict, List, Optional

from .core.program import AnalysisError, Program
from .report import Finding, Result, finish


@dataclass
class Variant:
    """A source-level variant used ONLY to test the checker itself (never executed).

    `old` must occur in `file`; it is replaced by `new` in memory.  `expect` is the rule id
    that must newly fire (a broken variant) or None (a behaviour-preserving variant: the
    checker must stay silent).  A variant whose `old` text is no longer present is skipped.
    """

    name: str
    file: str
    old: str
    new: str
    expect: Optional[str]
    nth: int = 0  # which occurrence (0-based); -1 = all


def load_module(prop: str):
    return importlib.import_module(f"sa.props.{prop.lower()}")


def analyse(prop: str, prog: Program) -> Result:
    mod = load_module(prop)
    res = Result(prop)
    try:
        mod.check(prog, res)
    except AnalysisError as e:
        res.inconclusive(f"{type(e).__name__}: {e}")
    return res


def apply_variant(prog: Program, v: Variant) -> Optional[Dict[str, str]]:
    path = prog.repo / v.file
    if not path.exists():
        return None
    src = prog.overrides.get(v.file) or path.read_text()
    if v.old not in src:
        return None
    if v.nth == -1:
        new = src.replace(v.old, v.new)
    else:
        parts = src.split(v.old)
        if len(parts) - 1 <= v.nth:
            return None
        new = v.old.join(parts[: v.nth + 1]) + v.new + v.old.join(parts[v.nth + 1:])
    return {v.file: new}


@dataclass
class PatchVariant:
    """A unified diff from the committed corpora (/verif/seeded: breaking changes made by independent sub-agents;
    /verif/refactors: behaviour-preserving refactorings), applied in memory.  expect = "*" (some new finding of this
    property must appear) or None (the checker must stay silent)."""

    name: str
    patch: str
    expect: Optional[str]


def apply_patch_text(repo, diff: str) -> Optional[Dict[str, str]]:
    """Apply a `git diff` to the files under repo, in memory.  None if a hunk does not match the current source."""
    import re

    out: Dict[str, str] = {}
    files = re.split(r"^diff --git .*$", diff, flags=re.M)[1:]
    for blk in files:
        m = re.search(r"^\+\+\+ b/(.+)$", blk, flags=re.M)
        if not m:
            return None
        rel = m.group(1).strip()
        path = repo / rel
        if not path.exists():
            return None
        with open(path, newline="") as fh:
            src = fh.read().splitlines(keepends=True)
        res: List[str] = []
        pos = 0
        body = blk[blk.index("@@"):] if "@@" in blk else ""
        for hm in re.finditer(r"^@@ -(\d+)(?:,(\d+))? \+\d+(?:,\d+)? @@.*?\n((?:[ +\-\\].*\n?)*)", body, flags=re.M):
            start = int(hm.group(1)) - 1
            lines = hm.group(3).splitlines(keepends=True)
            if start < pos:
                return None
            res += src[pos:start]
            pos = start
            for ln in lines:
                if ln.startswith("\\"):
                    continue
                tag, txt = ln[0], ln[1:]
                if tag in " -":
                    if pos >= len(src) or src[pos].rstrip("\r\n") != txt.rstrip("\r\n"):
                        return None
                    if tag == " ":
                        res.append(src[pos])
                    pos += 1
                elif tag == "+":
                    res.append(txt if txt.endswith("\n") else txt + "\n")
        res += src[pos:]
        out[rel] = "".join(res)
    return out or None


def corpus_variants(prop: str) -> List[PatchVariant]:
    from .report import VERIF

    out: List[PatchVariant] = []
    try:
        fired = json.loads((VERIF / "seeded" / "results.json").read_text())
    except Exception:
        fired = {}
    for sid, v in sorted(fired.items()):
        p = VERIF / "seeded" / sid / "patch.diff"
        if prop in v.get("fired", {}) and p.exists():
            out.append(PatchVariant(f"seed:{sid}", p.read_text(), "*"))
    rd = VERIF / "refactors"
    if rd.is_dir():
        for d in sorted(rd.iterdir()):
            p = d / "patch.diff"
            if d.name.startswith(prop + "-") and p.exists():
                out.append(PatchVariant(f"refactor:{d.name}", p.read_text(), None))
    return out


def _run_variant(args):
    prop, v, base_keys, repo = args
    base = Program(repo)
    if isinstance(v, PatchVariant):
        ov = apply_patch_text(base.repo, v.patch)
    else:
        ov = apply_variant(base, v)
    if ov is None:
        return (v.name, "skipped", "source text of the variant not present")
    try:
        prog = Program(repo, overrides=ov)
        res = analyse(prop, prog)
    except Exception as e:  # a variant that does not even parse is a broken variant spec
        return (v.name, "error", f"{type(e).__name__}: {e}")
    new = [f for f in res.findings if f.key not in base_keys]
    if v.expect is None:
        if new or res.incomplete:
            what = "; ".join([f"{f.rule}@{f.function}" for f in new] + res.incomplete)
            return (v.name, "FALSE-ALARM", what)
        return (v.name, "silent-ok", "")
    hit = [f for f in new if v.expect == "*" or f.rule == v.expect or f.rule.startswith(v.expect)]
    if hit:
        return (v.name, "fired-ok", f"{hit[0].rule}@{hit[0].function}: {hit[0].construct[:80]}")
    other = "; ".join(f"{f.rule}@{f.function}" for f in new) or ("incomplete: " + "; ".join(res.incomplete) if res.incomplete else "nothing fired")
    return (v.name, "MISSED", other)


def selftest(prop: str, prog: Program, base: Result, seed: int) -> Dict[str, object]:
    mod = load_module(prop)
    variants: List[Variant] = list(getattr(mod, "VARIANTS", [])) + corpus_variants(prop)
    base_keys = {f.key for f in base.findings}
    jobs = [(prop, v, base_keys, str(prog.repo)) for v in variants]
    out = []
    if jobs:
        import multiprocessing as mp

        with mp.get_context("fork").Pool(min(16, len(jobs))) as pool:
            out = pool.map(_run_variant, jobs)
    summary = {
        "variants": len(variants),
        "fired_ok": sum(1 for o in out if o[1] == "fired-ok"),
        "silent_ok": sum(1 for o in out if o[1] == "silent-ok"),
        "skipped": [o[0] for o in out if o[1] == "skipped"],
        "missed": [f"{o[0]}: {o[2]}" for o in out if o[1] == "MISSED"],
        "false_alarms": [f"{o[0]}: {o[2]}" for o in out if o[1] == "FALSE-ALARM"],
        "errors": [f"{o[0]}: {o[2]}" for o in out if o[1] == "error"],
        "detail": [{"variant": o[0], "outcome": o[1], "what": o[2]} for o in out],
    }
    return summary


def run(prop: str, tier: str, seed: int, t0: float, replay: Optional[str] = None, write_evidence: bool = True) -> int:
    mod = load_module(prop)
    prog = Program()
    res = analyse(prop, prog)
    res.extra["modules_parsed"] = len(prog.modules)
    res.extra["functions_in_program"] = len(prog.functions)
    res.extra["source_digest"] = prog.digest_of(res.modules or prog.modules.keys())
    res.extra["repo"] = str(prog.repo)
    if tier == "thorough":
        st = selftest(prop, prog, res, seed)
        res.extra["selftest"] = st
        res.extra["disagreements_checked"] = st["variants"]
        if hasattr(mod, "thorough"):
            try:
                mod.thorough(prog, res)
            except AnalysisError as e:
                res.inconclusive(f"{type(e).__name__}: {e}")
        # a checker that misses its own broken variants (or raises an alarm on a behaviour-
        # preserving one) on a tree whose base verdict is clean is broken, not passing.
        if not res.findings or all(True for _ in res.findings):
            for m in st["missed"]:
                res.inconclusive(f"self-test: broken variant not detected: {m}")
            for m in st["false_alarms"]:
                res.inconclusive(f"self-test: behaviour-preserving variant raised an alarm: {m}")
            for m in st["errors"]:
                res.inconclusive(f"self-test: variant could not be analysed: {m}")
    if replay:
        want = json.loads(open(replay).read())
        key = (want["property"], want["rule"], want["function"], want["construct"])
        res.findings = [f for f in res.findings if f.key == key]
        if not res.findings:
            print(f"replay: finding {want['rule']} @ {want['function']} no longer derivable on the current tree")
        return finish(res, tier, seed, t0, mod.EXPLANATION, mod.TRUSTED, write_evidence=False)
    return finish(res, tier, seed, t0, mod.EXPLANATION, mod.TRUSTED, write_evidence=write_evidence)
