"""Findings, known-findings matching, evidence writer, exit protocol."""

from __future__ import annotations

import hashlib
import json
import os
import time
from dataclasses import dataclass, field
from pathlib import Path
from typing import Any, Dict, List, Optional

VERIF = Path(__file__).resolve().parent.parent
KNOWN = VERIF / "known_findings.json"


@dataclass
class Finding:
    prop: str
    rule: str
    function: str
    construct: str
    message: str
    where: str = ""
    derivation: Any = None

    @property
    def key(self):
        return (self.prop, self.rule, self.function, self.construct)

    def digest(self) -> str:
        return hashlib.sha256("|".join(self.key).encode()).hexdigest()[:12]

    def to_json(self) -> Dict[str, Any]:
        return {
            "property": self.prop,
            "rule": self.rule,
            "function": self.function,
            "construct": self.construct,
            "message": self.message,
            "where": self.where,
            "derivation": self.derivation,
        }


@dataclass
class Result:
    prop: str
    findings: List[Finding] = field(default_factory=list)
    incomplete: List[str] = field(default_factory=list)
    rule_instances: Dict[str, int] = field(default_factory=dict)
    obligations: int = 0
    discharged: int = 0
    samples: List[Any] = field(default_factory=list)
    assumptions: List[str] = field(default_factory=list)
    notes: List[str] = field(default_factory=list)
    functions: set = field(default_factory=set)
    modules: set = field(default_factory=set)
    extra: Dict[str, Any] = field(default_factory=dict)

    # -- recording -------------------------------------------------------
    def ob(self, rule: str, ok: bool, function: str, construct: str, message: str, where: str = "",
           derivation: Any = None, sample: Any = None) -> bool:
        """Record one obligation of `rule`; a failed one becomes a finding."""
        self.obligations += 1
        self.rule_instances[rule] = self.rule_instances.get(rule, 0) + 1
        if ok:
            self.discharged += 1
            if sample is not None and len([s for s in self.samples if s.get("rule") == rule]) < 3:
                self.samples.append({"rule": rule, "function": function, "obligation": construct, "derivation": sample})
        else:
            f = Finding(self.prop, rule, function, construct, message, where, derivation)
            if f.key not in {g.key for g in self.findings}:
                self.findings.append(f)
        return ok

    def count(self, rule: str, n: int = 1) -> None:
        self.rule_instances[rule] = self.rule_instances.get(rule, 0) + n

    def floor(self, rule: str, floor: int) -> None:
        """A rule that matches fewer instances than confirmed by hand never passes vacuously."""
        n = self.rule_instances.get(rule, 0)
        if n < floor:
            self.incomplete.append(f"rule {rule} matched {n} instances, floor is {floor}")

    def inconclusive(self, why: str) -> None:
        self.incomplete.append(why)

    def touch(self, fi) -> None:
        self.functions.add(fi.qualname)
        self.modules.add(fi.module.name)

    def borrow(self, fn, rule: str, *args, **kwargs) -> None:
        """Run a rule of ANOTHER property here, under this property's rule id `rule`: a structural condition that two
        properties both depend on is checked (and reported) by both.  Floors and self-tests stay with the owner."""
        sub = Result(self.prop)
        fn(args[0], sub, *args[1:], **kwargs)  # every rule function is fn(prog, res, ...)
        n_ok = sub.discharged
        for f in sub.findings:
            self.ob(rule, False, f.function, f"[{f.rule}] {f.construct}", f.message, f.where, f.derivation)
        self.obligations += n_ok
        self.discharged += n_ok
        self.rule_instances[rule] = self.rule_instances.get(rule, 0) + n_ok
        self.functions |= sub.functions
        self.modules |= sub.modules
        # an incomplete borrowed analysis makes this one incomplete too (never a silent pass)
        for m in sub.incomplete:
            if "floor is" not in m:
                self.incomplete.append(f"{rule}: {m}")


def load_known() -> List[Dict[str, Any]]:
    if not KNOWN.exists():
        return []
    return json.loads(KNOWN.read_text()).get("findings", [])


def match_known(f: Finding, known: List[Dict[str, Any]]) -> Optional[Dict[str, Any]]:
    for k in known:
        if k.get("status") != "open":
            continue
        if (
            k.get("property") == f.prop
            and k.get("rule") == f.rule
            and k.get("function") == f.function
            and k.get("construct") == f.construct
        ):
            return k
    return None


def finish(res: Result, tier: str, seed: int, t0: float, explanation: str, trusted: List[str],
           replay_only: Optional[Dict[str, Any]] = None, write_evidence: bool = True) -> int:
    known = load_known()
    outdir = VERIF / "out" / "findings" / res.prop
    violations = []
    known_hits = []
    for f in res.findings:
        k = match_known(f, known)
        if k is not None:
            known_hits.append((f, k))
        else:
            violations.append(f)
    wall = time.time() - t0

    # a definite violation is reported even when another rule could not be completed
    if violations:
        code = 1
    elif res.incomplete:
        code = 2
    else:
        code = 0

    if write_evidence:
        ev = {
            "property_id": res.prop,
            "tier": tier,
            "seed": seed,
            "level": "other",
            "coverage": {
                "explanation": explanation,
                "obligations": res.obligations,
                "discharged": res.discharged,
                "rule_instances": dict(sorted(res.rule_instances.items())),
                "functions_analysed": len(res.functions),
                "modules_consulted": sorted(res.modules),
                "samples": res.samples[:12] or [{"note": "no obligation sample recorded"}],
                "trusted_base": trusted,
                "known_findings_matched": [
                    {"rule": f.rule, "function": f.function, "construct": f.construct} for f, _ in known_hits
                ],
                "violations_reported": [
                    {"rule": f.rule, "function": f.function, "construct": f.construct} for f in violations
                ],
                "incomplete": res.incomplete,
                "notes": res.notes,
                **res.extra,
            },
            "assumptions": res.assumptions,
            "wall_s": round(wall, 3),
            "violations": len(violations),
        }
        evdir = VERIF / "evidence"
        evdir.mkdir(exist_ok=True)
        (evdir / f"{res.prop}.json").write_text(json.dumps(ev, indent=1, default=str) + "\n")

    for f, k in known_hits:
        print(f"KNOWN-FINDING: property={res.prop} rule={f.rule} {f.function}: {k.get('what_fails', f.message)}")
    for why in res.incomplete:
        print(f"ANALYSIS-INCOMPLETE property={res.prop}: {why}")
    for f in violations:
        outdir.mkdir(parents=True, exist_ok=True)
        p = outdir / f"{f.rule}-{f.digest()}.json"
        p.write_text(json.dumps(f.to_json(), indent=1, default=str) + "\n")
        print(f"  {f.rule} {f.where} {f.function}: {f.message}")
        print(f"    construct: {f.construct}")
        if code == 1:
            print(f"VIOLATION property={res.prop} replay={p}")
        else:
            print(f"  (not reported as VIOLATION: analysis incomplete) finding at {p}")
    if code == 0:
        print(
            f"OK property={res.prop} tier={tier} obligations={res.obligations} discharged={res.discharged} "
            f"known_findings={len(known_hits)} functions={len(res.functions)} wall={wall:.2f}s"
        )
    return code
