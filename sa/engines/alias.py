"""E1 — origin/alias + in-place-effect analysis.

Flow-sensitive over the CFG of each function.  The abstract value of a name is a set of
*origins*: ('param', p), ('self', attr), ('cache',), or nothing (fresh / immutable).
Views propagate origins; copies and arithmetic produce fresh values.  Dict entries with
constant string keys are tracked as pseudo-names  name["key"];  name[*]  holds the origins
of the elements/values of a container.  Function summaries (params possibly mutated,
params the return value may alias) are computed on demand and to a fixed point.
"""

from __future__ import annotations

import ast
from dataclasses import dataclass, field
from typing import Dict, FrozenSet, List, Optional, Set, Tuple

from ..core import astq
from ..core.cfg import CFG, Node
from ..core.program import FunctionInfo, Program, norm, short

Origin = Tuple[str, ...]
State = Dict[str, FrozenSet[Origin]]
EMPTY: FrozenSet[Origin] = frozenset()

VIEW_METHODS = {
    "view", "reshape", "squeeze", "unsqueeze", "permute", "transpose", "expand", "expand_as", "detach", "float", "double",
    "half", "to", "type", "cpu", "cuda", "numpy", "contiguous", "flatten", "ravel", "swapaxes", "movedim", "moveaxis", "narrow",
    "select", "unbind", "split", "chunk", "t", "view_as", "as_subclass", "requires_grad_", "unfold", "diagonal", "real", "byte",
    "int", "long", "bool", "type_as", "index_select_view", "get", "setdefault",
}
FRESH_METHODS = {
    "clone", "copy", "deepcopy", "sum", "mean", "any", "all", "max", "min", "abs", "sqrt", "exp", "round", "nonzero", "item",
    "tolist", "repeat", "isnan", "norm", "square", "argmax", "argmin", "astype", "size", "dim", "numel", "index", "count", "keys",
    "format", "join", "startswith", "endswith", "as_posix", "exists", "is_dir", "mkdir", "nanmean", "prod", "cumsum", "std",
    "unique", "sort", "argsort", "topk", "index_select", "gather", "masked_select", "floor", "ceil", "clamp", "clip", "pow",
    "log", "cat", "stack", "eq", "ne", "lt", "gt", "le", "ge", "mul", "add", "sub", "div", "matmul", "dot", "nan_to_num",
    "isinf", "isfinite", "where", "tile", "repeat_interleave", "strip", "lower", "upper", "replace", "encode", "decode",
    "is_floating_point", "element_size", "nelement", "total_len", "read", "load", "is_nested", "is_empty", "close", "items_view",
}
VIEW_ATTRS = {"T", "mT", "data", "values", "indices", "real", "imag", "flat", "base"}
IMMUTABLE_ATTRS = {"shape", "ndim", "dtype", "device", "size", "name", "score", "frame_idx", "is_empty", "is_nested", "filename"}
MUTATOR_METHODS = {"append", "extend", "update", "pop", "clear", "insert", "remove", "popitem", "sort", "reverse", "add", "discard", "appendleft"}
VIEW_FUNCS = {
    "torch.squeeze", "torch.unsqueeze", "torch.reshape", "torch.transpose", "torch.permute", "torch.flatten", "torch.narrow",
    "torch.from_numpy", "torch.as_tensor", "torch.asarray", "torch.view_as_real", "torch.movedim", "torch.swapaxes", "torch.t",
    "torch.atleast_2d", "torch.atleast_3d", "torch.unbind", "torch.split", "torch.chunk", "torch.detach", "torch.select",
    "numpy.expand_dims", "numpy.transpose", "numpy.squeeze", "numpy.reshape", "numpy.ravel", "numpy.asarray", "numpy.atleast_1d",
    "numpy.atleast_2d", "numpy.atleast_3d", "numpy.swapaxes", "numpy.moveaxis", "numpy.split", "numpy.asanyarray", "numpy.broadcast_to",
    "numpy.rollaxis", "numpy.flip", "numpy.diagonal", "numpy.array_split", "numpy.nan_to_num_view",
}
CONTAINER_FUNCS = {"builtins.list", "builtins.tuple", "builtins.set", "builtins.dict", "builtins.sorted", "builtins.reversed", "builtins.iter"}
ITER_FUNCS = {"builtins.zip", "builtins.enumerate", "itertools.cycle", "builtins.map", "builtins.filter"}


@dataclass
class Effect:
    function: str
    origin: Origin
    stmt: str
    line: int
    via: str = ""  # callee chain
    kind: str = "store"  # store | inplace | container | attr


@dataclass
class Summary:
    mutated: Dict[str, List[Effect]] = field(default_factory=dict)  # param -> effects
    returns: Set[str] = field(default_factory=set)  # params the return value (the object itself) may alias
    returns_elems: Set[str] = field(default_factory=set)  # params the ELEMENTS/values of a returned container may alias
    effects: List[Effect] = field(default_factory=list)  # all sinks on non-fresh origins (incl. self/cache)
    store_sites: int = 0
    done: bool = False


class Alias:
    def __init__(self, prog: Program, assume_fresh_calls: Optional[Set[str]] = None):
        self.prog = prog
        self.summaries: Dict[str, Summary] = {}
        self._stack: List[str] = []
        self.assume_fresh_calls = assume_fresh_calls or set()
        self.unknown_methods: Dict[str, int] = {}
        self.analysed: List[FunctionInfo] = []

    # ------------------------------------------------------------------ API
    def summary(self, fi: FunctionInfo) -> Summary:
        q = fi.qualname
        if q in self.summaries and (self.summaries[q].done or q in self._stack):
            return self.summaries[q]
        self.summaries.setdefault(q, Summary())
        self._stack.append(q)
        try:
            for _ in range(4):
                new = self._analyse(fi)
                old = self.summaries[q]
                changed = set(new.mutated) != set(old.mutated) or new.returns != old.returns or new.returns_elems != old.returns_elems
                new.done = False
                self.summaries[q] = new
                if not changed:
                    break
        finally:
            self._stack.pop()
        self.summaries[q].done = True
        if fi not in self.analysed:
            self.analysed.append(fi)
        return self.summaries[q]

    # ------------------------------------------------------------ evaluation
    def _elem(self, name: str, st: State) -> FrozenSet[Origin]:
        return st.get(name + "[*]", st.get(name, EMPTY))

    def origins(self, fi: FunctionInfo, e: ast.AST, st: State) -> FrozenSet[Origin]:
        if e is None or isinstance(e, ast.Constant):
            return EMPTY
        if isinstance(e, ast.Name):
            return st.get(e.id, EMPTY)
        if isinstance(e, ast.Attribute):
            if isinstance(e.value, ast.Name) and e.value.id == "self":
                key = f"self.{e.attr}"
                return st.get(key, frozenset({("self", e.attr)}))
            if e.attr in IMMUTABLE_ATTRS:
                return EMPTY
            return self.origins(fi, e.value, st)
        if isinstance(e, ast.Subscript):
            base = e.value
            s = e.slice
            if isinstance(s, ast.Constant) and isinstance(s.value, str):
                key = f"{norm(base)}[{s.value!r}]"
                if key in st:
                    return st[key]
                if isinstance(base, ast.Name):
                    return self._elem(base.id, st)
                if norm(base) == "self.cache" or (isinstance(base, ast.Attribute) and base.attr == "cache"):
                    return frozenset({("cache",)})
                return self.origins(fi, base, st)
            if isinstance(base, ast.Attribute) and base.attr == "cache" and isinstance(base.value, ast.Name) and base.value.id == "self":
                return frozenset({("cache",)})
            if isinstance(base, ast.Name) and base.id + "[*]" in st:
                return st[base.id + "[*]"]
            return self.origins(fi, base, st)
        if isinstance(e, (ast.BinOp, ast.UnaryOp, ast.Compare, ast.JoinedStr, ast.Lambda, ast.Dict, ast.Set, ast.DictComp, ast.SetComp)):
            return EMPTY
        if isinstance(e, ast.BoolOp):
            out = EMPTY
            for v in e.values:
                out |= self.origins(fi, v, st)
            return out
        if isinstance(e, ast.IfExp):
            return self.origins(fi, e.body, st) | self.origins(fi, e.orelse, st)
        if isinstance(e, (ast.Tuple, ast.List)):
            out = EMPTY
            for v in e.elts:
                out |= self.origins(fi, v, st)
            return out
        if isinstance(e, (ast.ListComp, ast.GeneratorExp)):
            st2 = dict(st)
            for g in e.generators:
                self._bind_iter(fi, g.target, g.iter, st2)
            return self.origins(fi, e.elt, st2)
        if isinstance(e, ast.Starred):
            return self.origins(fi, e.value, st)
        if isinstance(e, ast.Call):
            return self._call_origins(fi, e, st)
        if isinstance(e, ast.NamedExpr):
            return self.origins(fi, e.value, st)
        return EMPTY

    def _call_origins(self, fi: FunctionInfo, c: ast.Call, st: State) -> FrozenSet[Origin]:
        q = self.prog.resolve_call(fi, c)
        f = c.func
        if q in self.assume_fresh_calls:
            return EMPTY
        if q in self.prog.functions:
            callee = self.prog.functions[q]
            sm = self.summary(callee)
            bound = astq.bind_args(callee, c, skip_self=callee.cls is not None and isinstance(f, ast.Attribute))
            out = EMPTY
            for p in sm.returns:
                if p in bound:
                    out |= self.origins(fi, bound[p], st)
            return out
        if q in self.prog.classes:
            return EMPTY
        if q in VIEW_FUNCS or q.replace("np.", "numpy.") in VIEW_FUNCS:
            return self.origins(fi, c.args[0], st) if c.args else EMPTY
        if q in CONTAINER_FUNCS or q in ITER_FUNCS:
            out = EMPTY
            for a in c.args:
                out |= self._iter_elem(fi, a, st)
            return out
        if q == "builtins.super":
            return EMPTY
        if isinstance(f, ast.Attribute) and not q.startswith(("torch.", "numpy.", "kornia.", "torchvision.", "scipy.", "cv2.", "networkx.", "omegaconf.", "sleap_io.", "math.", "copy.")):
            m = f.attr
            recv = self.origins(fi, f.value, st)
            if m in ("items", "values"):
                return self._iter_elem(fi, f.value, st)
            if m == "numpy" and recv and all(o[0] == "param" and "sio." in norm(fi.annotations().get(o[1]) or ast.Constant("")) for o in recv):
                return EMPTY  # A-sio: sleap_io Instance.numpy() returns a fresh array
            if m == "copy":
                return EMPTY
            if m in FRESH_METHODS:
                return EMPTY
            if m in VIEW_METHODS:
                if m == "get" and isinstance(f.value, ast.Name):
                    return self._elem(f.value.id, st)
                return recv
            if m.endswith("_") and not m.endswith("__"):
                return recv  # in-place methods return self
            if recv:
                self.unknown_methods[m] = self.unknown_methods.get(m, 0) + 1
            return recv  # unknown method on a tracked value: assume it may alias (conservative)
        return EMPTY  # external function: fresh result

    def _iter_elem(self, fi: FunctionInfo, e: ast.AST, st: State) -> FrozenSet[Origin]:
        """Origins of the elements obtained by iterating `e`."""
        if isinstance(e, ast.Name):
            return self._elem(e.id, st)
        if isinstance(e, ast.Call):
            q = self.prog.resolve_call(fi, e)
            if q in ITER_FUNCS or q in CONTAINER_FUNCS:
                out = EMPTY
                for a in e.args:
                    out |= self._iter_elem(fi, a, st)
                return out
            if isinstance(e.func, ast.Attribute) and e.func.attr in ("items", "values") and isinstance(e.func.value, ast.Name):
                return self._elem(e.func.value.id, st)
        return self.origins(fi, e, st)

    def _bind_iter(self, fi: FunctionInfo, target: ast.AST, it: ast.AST, st: State) -> None:
        # zip / enumerate aware element binding
        if isinstance(it, ast.Call):
            q = self.prog.resolve_call(fi, it)
            if q == "builtins.enumerate" and isinstance(target, ast.Tuple) and len(target.elts) == 2 and it.args:
                self._assign(fi, target.elts[0], None, st, EMPTY)
                self._bind_iter(fi, target.elts[1], it.args[0], st)
                return
            if q == "builtins.zip" and isinstance(target, ast.Tuple) and len(target.elts) == len(it.args):
                for t, a in zip(target.elts, it.args):
                    self._bind_iter(fi, t, a, st)
                return
        o = self._iter_elem(fi, it, st)
        self._assign(fi, target, None, st, o)

    def _assign(self, fi: FunctionInfo, target: ast.AST, value: Optional[ast.AST], st: State, o: Optional[FrozenSet[Origin]] = None) -> None:
        if o is None:
            o = self.origins(fi, value, st)
        if isinstance(target, ast.Name):
            st[target.id] = o
            # container bookkeeping
            for k in [k for k in st if k.startswith(target.id + "[")]:
                del st[k]
            if value is not None:
                self._container_init(fi, target.id, value, st)
        elif isinstance(target, (ast.Tuple, ast.List)):
            if value is not None and isinstance(value, (ast.Tuple, ast.List)) and len(value.elts) == len(target.elts):
                for t, v in zip(target.elts, value.elts):
                    self._assign(fi, t, v, st)
            else:
                if value is not None and isinstance(value, ast.Call):
                    # tuple returned by a call: every element may alias what the call may alias
                    pass
                for t in target.elts:
                    self._assign(fi, t, None, st, o)
        elif isinstance(target, ast.Starred):
            self._assign(fi, target.value, None, st, o)
        elif isinstance(target, ast.Attribute) and isinstance(target.value, ast.Name) and target.value.id == "self":
            st[f"self.{target.attr}"] = o
        elif isinstance(target, ast.Subscript) and isinstance(target.slice, ast.Constant) and isinstance(target.slice.value, str):
            st[f"{norm(target.value)}[{target.slice.value!r}]"] = o

    def _container_init(self, fi: FunctionInfo, name: str, value: ast.AST, st: State) -> None:
        """x = y.copy() / dict(y) / {...}: element origins of the new container."""
        if isinstance(value, ast.Call):
            q = self.prog.resolve_call(fi, value)
            if q in self.prog.functions:
                callee = self.prog.functions[q]
                sm = self.summary(callee)
                if sm.returns_elems:
                    bound = astq.bind_args(callee, value, skip_self=callee.cls is not None and isinstance(value.func, ast.Attribute))
                    el = EMPTY
                    for p in sm.returns_elems:
                        if p in bound:
                            el |= self.origins(fi, bound[p], st)
                    if el:
                        st[name + "[*]"] = el
                return
        if isinstance(value, ast.Call) and isinstance(value.func, ast.Attribute) and value.func.attr == "copy" and not value.args:
            src = value.func.value
            elem = self._iter_elem(fi, src, st) if not isinstance(src, ast.Subscript) else self.origins(fi, src, st)
            if isinstance(src, ast.Name) and src.id + "[*]" in st:
                elem = st[src.id + "[*]"]
                for k, v in list(st.items()):
                    if k.startswith(src.id + "[") and k != src.id + "[*]":
                        st[name + k[len(src.id):]] = v
            if elem:
                st[name + "[*]"] = elem  # shallow copy: container fresh, values alias
            st[name] = EMPTY
        elif isinstance(value, ast.Dict):
            el = EMPTY
            for k, v in zip(value.keys, value.values):
                o = self.origins(fi, v, st)
                el |= o
                if isinstance(k, ast.Constant) and isinstance(k.value, str):
                    st[f"{name}[{k.value!r}]"] = o
            if el:
                st[name + "[*]"] = el
        elif isinstance(value, (ast.List, ast.Tuple)):
            el = self.origins(fi, value, st)
            st[name] = EMPTY
            if el:
                st[name + "[*]"] = el
        elif isinstance(value, ast.Call) and self.prog.resolve_call(fi, value) in CONTAINER_FUNCS:
            el = self.origins(fi, value, st)
            st[name] = EMPTY
            if el:
                st[name + "[*]"] = el

    # -------------------------------------------------------------- analysis
    def _analyse(self, fi: FunctionInfo) -> Summary:
        sm = Summary()
        cfg = CFG(fi.node)
        init: State = {}
        for p in fi.params:
            pn = p.lstrip("*")
            if pn in ("self", "cls"):
                continue
            init[pn] = frozenset({("param", pn)})
        sinks: List[Tuple[Node, FrozenSet[Origin], str, str, str]] = []

        def sink(node: Node, o: FrozenSet[Origin], stmt: ast.AST, kind: str, via: str = ""):
            if o:
                sinks.append((node, o, short(stmt, 90), kind, via))

        def freeze(st: State):
            return tuple(sorted((k, tuple(sorted(v))) for k, v in st.items()))

        def transfer(node: Node, st_in):
            st: State = dict(st_in)
            a = node.ast
            if a is None or node.kind in ("entry", "exit", "raise", "join"):
                return st
            if node.kind == "except":
                if a.name:
                    st[a.name] = EMPTY
                return st
            if node.kind == "test":
                if isinstance(a, (ast.For, ast.AsyncFor)):
                    self._scan_calls(fi, a.iter, st, node, sink)
                    self._bind_iter(fi, a.target, a.iter, st)
                elif isinstance(a, (ast.If, ast.While)):
                    self._scan_calls(fi, a.test, st, node, sink)
                elif isinstance(a, (ast.With, ast.AsyncWith)):
                    for it in a.items:
                        self._scan_calls(fi, it.context_expr, st, node, sink)
                        if it.optional_vars is not None:
                            self._assign(fi, it.optional_vars, it.context_expr, st)
                return st
            if isinstance(a, (ast.FunctionDef, ast.AsyncFunctionDef, ast.ClassDef)):
                return st
            self._scan_calls(fi, a, st, node, sink)
            if isinstance(a, ast.Assign):
                for t in a.targets:
                    self._store_effect(fi, t, a, st, node, sink)
                for t in a.targets:
                    self._assign(fi, t, a.value, st)
            elif isinstance(a, ast.AnnAssign) and a.value is not None:
                self._store_effect(fi, a.target, a, st, node, sink)
                self._assign(fi, a.target, a.value, st)
            elif isinstance(a, ast.AugAssign):
                t = a.target
                if isinstance(t, ast.Name):
                    sink(node, st.get(t.id, EMPTY), a, "inplace")
                elif isinstance(t, ast.Subscript):
                    if isinstance(t.slice, ast.Constant) and isinstance(t.slice.value, str):
                        sink(node, self.origins(fi, t, st), a, "inplace")  # value stored under a dict key
                    else:
                        sink(node, self.origins(fi, t.value, st), a, "store")
                elif isinstance(t, ast.Attribute):
                    sink(node, self.origins(fi, t, st), a, "inplace")
            elif isinstance(a, ast.Delete):
                for t in a.targets:
                    if isinstance(t, ast.Subscript):
                        sink(node, self.origins(fi, t.value, st), a, "container")
            elif isinstance(a, ast.Return) and a.value is not None:
                for o in self.origins(fi, a.value, st):
                    if o[0] == "param":
                        sm.returns.add(o[1])
                if isinstance(a.value, ast.Name) and a.value.id + "[*]" in st:
                    for o in st[a.value.id + "[*]"]:
                        if o[0] == "param":
                            sm.returns_elems.add(o[1])
                elif isinstance(a.value, (ast.Dict,)):
                    for v in a.value.values:
                        for o in self.origins(fi, v, st):
                            if o[0] == "param":
                                sm.returns_elems.add(o[1])
            return st

        def fallback(st, k):
            # a dict-key pseudo-name missing on one path denotes, there, an ordinary element of the container
            if "[" in k and not k.endswith("[*]"):
                base = k[: k.index("[")]
                return st.get(base + "[*]", st.get(base, EMPTY))
            return EMPTY

        def join(a, b):
            out = {}
            for k in set(a) | set(b):
                va = a[k] if k in a else fallback(a, k)
                vb = b[k] if k in b else fallback(b, k)
                out[k] = va | vb
            return out

        # run to fixpoint (states are dicts; compare by frozen form)
        IN: Dict[int, State] = {cfg.entry: init}
        work = [cfg.entry]
        guard = 0
        while work and guard < 20000:
            guard += 1
            n = work.pop()
            sinks_before = len(sinks)
            out = transfer(cfg.nodes[n], IN[n])
            del sinks[sinks_before:]  # sinks are collected in the final pass only
            for m in cfg.g.successors(n):
                new = out if m not in IN else join(IN[m], out)
                if m not in IN or freeze(new) != freeze(IN[m]):
                    IN[m] = new
                    work.append(m)
        for n, st in IN.items():
            transfer(cfg.nodes[n], st)
        sm.store_sites = len(sinks)
        seen = set()
        for node, o, stmt, kind, via in sinks:
            for org in o:
                key = (org, stmt, kind, via)
                if key in seen:
                    continue
                seen.add(key)
                ef = Effect(fi.qualname, org, stmt, node.lineno, via, kind)
                sm.effects.append(ef)
                if org[0] == "param" and kind != "attr":
                    sm.mutated.setdefault(org[1], []).append(ef)
        return sm

    def _store_effect(self, fi, target: ast.AST, stmt: ast.AST, st: State, node: Node, sink) -> None:
        if isinstance(target, ast.Subscript):
            s = target.slice
            base_o = self.origins(fi, target.value, st)
            if isinstance(s, ast.Constant) and isinstance(s.value, str):
                sink(node, base_o, stmt, "container")  # re-binding a key of a non-fresh dict
            else:
                sink(node, base_o, stmt, "store")
        elif isinstance(target, ast.Attribute) and not (isinstance(target.value, ast.Name) and target.value.id == "self"):
            sink(node, self.origins(fi, target.value, st), stmt, "attr")
        elif isinstance(target, (ast.Tuple, ast.List)):
            for t in target.elts:
                self._store_effect(fi, t, stmt, st, node, sink)

    def _scan_calls(self, fi: FunctionInfo, root: ast.AST, st: State, node: Node, sink) -> None:
        for c in ast.walk(root):
            if isinstance(c, (ast.Lambda,)):
                continue
            if not isinstance(c, ast.Call):
                continue
            q = self.prog.resolve_call(fi, c)
            f = c.func
            for k in c.keywords:
                if k.arg == "out":
                    sink(node, self.origins(fi, k.value, st), c, "inplace")
            if q in self.prog.functions:
                callee = self.prog.functions[q]
                if q in self._stack and not self.summaries[q].done:
                    sm = self.summaries[q]
                else:
                    sm = self.summary(callee)
                bound = astq.bind_args(callee, c, skip_self=callee.cls is not None and isinstance(f, ast.Attribute))
                for p, effs in sm.mutated.items():
                    if p in bound:
                        o = self.origins(fi, bound[p], st)
                        if isinstance(bound[p], ast.Name):
                            o |= EMPTY
                        via = f"{callee.qualname}({p}) <- {effs[0].stmt}"
                        sink(node, o, c, effs[0].kind, via)
                continue
            if isinstance(f, ast.Attribute):
                m = f.attr
                if (m.endswith("_") and not m.endswith("__") and not q.startswith(("torch.nn.init",))) and not isinstance(f.value, ast.Constant):
                    if q.startswith(("torch.", "numpy.")) and c.args:
                        sink(node, self.origins(fi, c.args[0], st), c, "inplace")
                    else:
                        sink(node, self.origins(fi, f.value, st), c, "inplace")
                elif m in MUTATOR_METHODS and not q.startswith(("torch.", "numpy.")):
                    o = self.origins(fi, f.value, st)
                    sink(node, o, c, "container")
                    # x.append(v): elements of x may alias v
                    if isinstance(f.value, ast.Name) and c.args and m in ("append", "extend", "add", "insert", "update"):
                        add = self.origins(fi, c.args[-1], st) if m != "extend" else self._iter_elem(fi, c.args[-1], st)
                        if add:
                            st[f.value.id + "[*]"] = st.get(f.value.id + "[*]", EMPTY) | add


def selftest_alias():
    import os
    import pathlib
    import shutil
    import tempfile
    import textwrap

    src = textwrap.dedent(
        """
        import torch, numpy as np

        def view_write(points, k):
            c = points[..., k, :]
            m = torch.isnan(c).any(dim=-1)
            c[m] = 0.0
            return c

        def clone_write(points, k):
            c = points[..., k, :].clone()
            c[torch.isnan(c)] = 0.0
            return c

        def rebinding(x):
            x = x.clone()
            x[0] = 1
            return x

        def through_callee(img, pts):
            out = view_write(pts.reshape(-1, 3, 2), 0)
            return img, out

        def aug(a, b):
            b += 1
            return a

        def cached(self, index):
            sample = self.cache[index].copy()
            sample["image"] = sample["image"] * 2
            return sample

        def cached_bad(self, index):
            sample = self.cache[index].copy()
            sample["instances"] *= 2
            return sample
        """
    )
    d = tempfile.mkdtemp()
    try:
        os.makedirs(os.path.join(d, "sleap_nn"))
        pathlib.Path(d, "sleap_nn", "m.py").write_text(src)
        prog = Program(d)
        al = Alias(prog)
        s = al.summary(prog.func("sleap_nn.m:view_write"))
        assert "points" in s.mutated and "points" in s.returns, (s.mutated, s.returns)
        s = al.summary(prog.func("sleap_nn.m:clone_write"))
        assert not s.mutated and not s.returns, s.mutated
        s = al.summary(prog.func("sleap_nn.m:rebinding"))
        assert not s.mutated, s.mutated
        s = al.summary(prog.func("sleap_nn.m:through_callee"))
        assert "pts" in s.mutated and "img" in s.returns and "pts" in s.returns, (s.mutated, s.returns)
        s = al.summary(prog.func("sleap_nn.m:aug"))
        assert "b" in s.mutated
        s = al.summary(prog.func("sleap_nn.m:cached"))
        assert not [e for e in s.effects if e.origin == ("cache",)], s.effects
        s = al.summary(prog.func("sleap_nn.m:cached_bad"))
        assert [e for e in s.effects if e.origin == ("cache",)], s.effects
    finally:
        shutil.rmtree(d)
