"""E4b — taint of infinite cost constants into scipy.optimize.linear_sum_assignment.

Inter-procedural, flow-insensitive over names: an *inf source* is an infinite constant
written into an array (fill constructors, masked stores, where()); taint follows
assignments, returns and arguments; a *sink parameter* is a parameter that reaches the
first argument of linear_sum_assignment directly, through a callee's sink parameter, or
through a registry dictionary of functions.  A finding is a call site where a tainted
value enters a sink.
"""

from __future__ import annotations

import ast
from typing import Dict, List, Optional, Set, Tuple

from ..core import astq
from ..core.program import FunctionInfo, Program, enclosing_stmt, norm, short, walk_function

SINK = "scipy.optimize.linear_sum_assignment"
_INF_NAMES = {"np.inf", "numpy.inf", "torch.inf", "math.inf", "np.Inf", "np.infty", "float('inf')", 'float("inf")', "np.PINF", "np.NINF"}
_FILL = {"full", "full_like", "where", "nan_to_num"}


def is_inf(e: ast.AST) -> bool:
    if isinstance(e, ast.UnaryOp) and isinstance(e.op, (ast.USub, ast.UAdd)):
        return is_inf(e.operand)
    t = norm(e)
    return t in _INF_NAMES or t.replace('"', "'") in _INF_NAMES


_ALIAS_METHODS = {"numpy", "copy", "clone", "to", "cpu", "astype", "detach", "float", "double", "T", "reshape", "view",
                  "squeeze", "unsqueeze", "flatten", "tolist", "item"}
_ALIAS_FUNCS = {"np.asarray", "np.array", "numpy.asarray", "numpy.array", "torch.tensor", "torch.as_tensor", "torch.from_numpy",
                "np.copy", "list", "tuple", "np.negative", "torch.neg"}


def value_carriers(e: ast.AST) -> Set[str]:
    """Names whose (possibly infinite) VALUES can be carried unchanged into the value of `e`:
    aliases, views, copies, sign flips, scaling by a constant, packing - not general arithmetic."""
    if isinstance(e, ast.Name):
        return {e.id}
    if isinstance(e, ast.UnaryOp) and isinstance(e.op, (ast.USub, ast.UAdd)):
        return value_carriers(e.operand)
    if isinstance(e, (ast.Subscript,)):
        return value_carriers(e.value)
    if isinstance(e, ast.Attribute):
        return value_carriers(e.value) if e.attr in _ALIAS_METHODS else set()
    if isinstance(e, ast.Call):
        if isinstance(e.func, ast.Attribute) and e.func.attr in _ALIAS_METHODS:
            return value_carriers(e.func.value)
        if norm(e.func) in _ALIAS_FUNCS and e.args:
            return value_carriers(e.args[0])
        return set()
    if isinstance(e, ast.BinOp) and isinstance(e.op, (ast.Mult, ast.Div, ast.Add, ast.Sub)):
        if isinstance(e.right, ast.Constant) or (isinstance(e.right, ast.UnaryOp) and isinstance(e.right.operand, ast.Constant)):
            return value_carriers(e.left)
        if isinstance(e.left, ast.Constant) or (isinstance(e.left, ast.UnaryOp) and isinstance(e.left.operand, ast.Constant)):
            return value_carriers(e.right)
        return set()
    if isinstance(e, (ast.Tuple, ast.List)):
        out: Set[str] = set()
        for x in e.elts:
            out |= value_carriers(x)
        return out
    if isinstance(e, ast.IfExp):
        return value_carriers(e.body) | value_carriers(e.orelse)
    if isinstance(e, (ast.ListComp, ast.GeneratorExp)):
        return value_carriers(e.elt)
    return set()


def contains_inf(e: ast.AST) -> Optional[ast.AST]:
    for n in ast.walk(e):
        if isinstance(n, (ast.Attribute, ast.Call, ast.Name)) and is_inf(n):
            return n
    return None


def is_neg_inf(e: ast.AST) -> bool:
    """-inf written out: -np.inf, np.NINF, float('-inf')."""
    if isinstance(e, ast.UnaryOp) and isinstance(e.op, ast.USub):
        return is_inf(e.operand) and not is_neg_inf(e.operand)
    if isinstance(e, ast.UnaryOp) and isinstance(e.op, ast.UAdd):
        return is_neg_inf(e.operand)
    t = norm(e).replace('"', "'")
    return t in ("np.NINF", "numpy.NINF", "float('-inf')")


def source_kind(st: ast.stmt, fn: Optional[ast.AST] = None) -> str:
    """How the infinite value enters an array (independent of the names used).  The SIGN is part of the kind: +inf marks an
    entry as unusable for a minimising matcher, -inf makes it the mandatory choice and is rejected by scipy outright."""
    k = _source_kind(st, fn)
    val = getattr(st, "value", None)
    neg = val is not None and any(is_neg_inf(n) for n in ast.walk(val))
    return k.replace("inf", "-inf") if neg else k


def _source_kind(st: ast.stmt, fn: Optional[ast.AST] = None) -> str:
    val = getattr(st, "value", None)
    for t in astq.stmt_targets(st):
        sl = astq.expand(fn, t.slice) if isinstance(t, ast.Subscript) and fn is not None else getattr(t, "slice", None)
        if isinstance(t, ast.Subscript) and any(isinstance(c, ast.Call) and norm(c.func).split(".")[-1] == "isnan" for c in ast.walk(sl)):
            return "NaN entries rewritten to inf"
        if isinstance(t, ast.Subscript) and isinstance(t.slice, ast.Name):
            return "masked entries set to inf"
    for c in ast.walk(val) if val is not None else []:
        if isinstance(c, ast.Call):
            nm = norm(c.func).split(".")[-1]
            if nm in ("full", "full_like") and any(is_inf(a) for a in list(c.args) + [k.value for k in c.keywords]):
                return "array filled with inf"
            if nm == "where" and any(is_inf(a) for a in c.args):
                return "where(..., inf)"
            if nm == "nan_to_num" and any(is_inf(k.value) for k in c.keywords):
                return "nan_to_num(nan=inf)"
    return "inf stored"


class InfTaint:
    def __init__(self, prog: Program):
        self.prog = prog
        self.kinds: Dict[str, str] = {}  # source description -> kind description (name-independent, used in finding keys)
        self.returns_inf: Dict[str, List[str]] = {}  # qualname -> source descriptions
        self.sink_params: Dict[str, Dict[str, List[str]]] = {}  # qualname -> param -> chain
        self.ret_params: Dict[str, Set[str]] = {}  # qualname -> params whose values are carried into the return value
        self.touched: List[FunctionInfo] = []
        self._registries: Dict[Tuple[str, str], List[str]] = {}
        self._index_registries()
        self._solve()

    # registry dictionaries of functions declared at class level
    def _index_registries(self) -> None:
        for ci in self.prog.classes.values():
            for st in ci.node.body:
                tgt = val = None
                if isinstance(st, ast.AnnAssign) and isinstance(st.target, ast.Name):
                    tgt, val = st.target.id, st.value
                elif isinstance(st, ast.Assign) and isinstance(st.targets[0], ast.Name):
                    tgt, val = st.targets[0].id, st.value
                if tgt and isinstance(val, ast.Dict):
                    funcs = []
                    for v in val.values:
                        q = self.prog.resolve_expr_name(ci.module, v) if isinstance(v, (ast.Name, ast.Attribute)) else None
                        if q:
                            funcs.append(q)
                    if funcs:
                        for c in [ci] + self.prog.subclasses(ci):
                            self._registries[(c.qualname, tgt)] = funcs

    def callees(self, fi: FunctionInfo, call: ast.Call) -> List[str]:
        q = self.prog.resolve_call(fi, call)
        if q in self.prog.functions or q == SINK:
            return [q]
        # local bound to a registry lookup: m = self._reg[key]; m(x)
        if isinstance(call.func, ast.Name) and fi.cls is not None:
            out = []
            for st in astq.assignments_to(fi.node, call.func.id):
                if isinstance(st, ast.Assign) and isinstance(st.value, ast.Subscript):
                    base = st.value.value
                    if isinstance(base, ast.Attribute) and norm(base.value) in ("self", "cls"):
                        out += self._registries.get((fi.cls.qualname, base.attr), [])
            return out
        return [q]

    def _local(self, fi: FunctionInfo) -> Tuple[Dict[str, List[str]], List[ast.stmt]]:
        """Tainted local names -> source descriptions."""
        tainted: Dict[str, List[str]] = {}
        stmts = [n for n in walk_function(fi.node) if isinstance(n, ast.stmt)]
        changed = True
        while changed:
            changed = False
            for st in stmts:
                srcs: List[str] = []
                tgt_names: Set[str] = set()
                if isinstance(st, (ast.Assign, ast.AugAssign, ast.AnnAssign)) and getattr(st, "value", None) is not None:
                    val = st.value
                    for t in astq.stmt_targets(st):
                        base = t
                        is_store_into = False
                        while isinstance(base, (ast.Subscript, ast.Attribute)):
                            is_store_into = True
                            base = base.value
                        if isinstance(base, ast.Name):
                            tgt_names.add(base.id)
                        elif isinstance(t, (ast.Tuple, ast.List)):
                            tgt_names |= astq.target_names(t)
                    inf = contains_inf(val)
                    if inf is not None:
                        d_ = f"`{short(st, 80)}` in {fi.qualname.split(':')[-1]}"
                        self.kinds[d_] = f"{source_kind(st, fi.node)} in {fi.qualname.split(':')[-1]}"
                        srcs.append(d_)
                    for nm in value_carriers(val):
                        if nm in tainted:
                            srcs += tainted[nm]
                    if isinstance(val, ast.Call):
                        for q in self.callees(fi, val):
                            if q in self.returns_inf:
                                srcs += self.returns_inf[q]
                            if q in self.ret_params and q in self.prog.functions:
                                callee = self.prog.functions[q]
                                bound = astq.bind_args(callee, val, skip_self=callee.cls is not None and not isinstance(val.func, ast.Name))
                                for cp, arg in bound.items():
                                    if cp in self.ret_params[q]:
                                        for nm in value_carriers(arg):
                                            if nm in tainted:
                                                srcs += tainted[nm]
                if srcs:
                    for nm in tgt_names:
                        cur = tainted.setdefault(nm, [])
                        new = [s for s in srcs if s not in cur]
                        if new:
                            cur += new
                            changed = True
        return tainted, stmts

    def _solve(self) -> None:
        # only modules that mention an infinity or the solver, and their (transitive) importers' callers, matter
        seeds = {m.name for m in self.prog.modules.values() if "inf" in m.src or "linear_sum_assignment" in m.src}
        funcs = [f for f in self.prog.functions.values() if f.module.name in seeds
                 or any(imp.split(":")[0].rsplit(".", 1)[0] in seeds or imp in seeds or imp.rsplit(".", 1)[0] in seeds
                        for imp in f.module.imports.values())]
        self._calls_cache: Dict[str, List[ast.Call]] = {}
        changed = True
        rounds = 0
        while changed and rounds < 10:
            changed = False
            rounds += 1
            for fi in funcs:
                tainted, stmts = self._local(fi)
                # returns
                rs: List[str] = []
                for st in stmts:
                    if isinstance(st, ast.Return) and st.value is not None:
                        if contains_inf(st.value) is not None and isinstance(st.value, ast.Call):
                            rs.append(f"`{short(st, 80)}` in {fi.qualname.split(':')[-1]}")
                        for nm in value_carriers(st.value):
                            if nm in tainted:
                                rs += [x for x in tainted[nm] if x not in rs]
                if rs and self.returns_inf.get(fi.qualname) != rs:
                    if fi.qualname not in self.returns_inf:
                        changed = True
                    self.returns_inf[fi.qualname] = rs
                # params carried into the return value
                rp: Set[str] = set()
                carried: Dict[str, Set[str]] = {p: {p} for p in fi.params if p not in ("self", "cls")}
                grow = True
                while grow:
                    grow = False
                    for st in stmts:
                        if isinstance(st, (ast.Assign, ast.AnnAssign)) and getattr(st, "value", None) is not None:
                            vc = value_carriers(st.value)
                            for p, names in carried.items():
                                if vc & names:
                                    for t in astq.stmt_targets(st):
                                        for nm in astq.target_names(t):
                                            if nm not in names:
                                                names.add(nm)
                                                grow = True
                for st in stmts:
                    if isinstance(st, ast.Return) and st.value is not None:
                        vc = value_carriers(st.value)
                        for p, names in carried.items():
                            if vc & names:
                                rp.add(p)
                if rp and self.ret_params.get(fi.qualname) != rp:
                    self.ret_params[fi.qualname] = rp
                    changed = True
                # sink params
                sp: Dict[str, List[str]] = {}
                if fi.qualname not in self._calls_cache:
                    self._calls_cache[fi.qualname] = [n for n in walk_function(fi.node) if isinstance(n, ast.Call)]
                all_calls = self._calls_cache[fi.qualname]
                relevant = [c for c in all_calls if any(q == SINK or q in self.sink_params for q in self.callees(fi, c))]
                for p in fi.params:
                    if p in ("self", "cls") or not relevant:
                        continue
                    derived = astq.dep_closure(fi.node.body, {p})
                    for c in relevant:
                        for q in self.callees(fi, c):
                            if q == SINK:
                                a0 = astq.call_arg(c, 0, "cost_matrix")
                                if a0 is not None and astq.loads_in(a0) & derived:
                                    sp[p] = [f"{fi.qualname}: {short(c, 50)}"]
                            elif q in self.sink_params and q in self.prog.functions:
                                callee = self.prog.functions[q]
                                bound = astq.bind_args(callee, c, skip_self=callee.cls is not None and not isinstance(c.func, ast.Name))
                                for cp, arg in bound.items():
                                    if cp in self.sink_params[q] and astq.loads_in(arg) & derived:
                                        sp[p] = [f"{fi.qualname}: {short(c, 50)}"] + self.sink_params[q][cp]
                if sp and self.sink_params.get(fi.qualname) != sp:
                    if set(sp) != set(self.sink_params.get(fi.qualname, {})):
                        changed = True
                    self.sink_params[fi.qualname] = sp

    def findings(self, scope_prefix: str) -> List[Dict]:
        out = []
        for fi in self.prog.functions.values():
            if not fi.module.name.startswith(scope_prefix):
                continue
            tainted, _ = self._local(fi)
            if not tainted:
                continue
            for c in [n for n in walk_function(fi.node) if isinstance(n, ast.Call)]:
                for q in self.callees(fi, c):
                    hits: List[Tuple[str, List[str], List[str]]] = []
                    if q == SINK:
                        a0 = astq.call_arg(c, 0, "cost_matrix")
                        if a0 is not None:
                            for nm in value_carriers(a0):
                                if nm in tainted:
                                    hits.append((nm, tainted[nm], [f"{fi.qualname}: {short(c, 50)}"]))
                    elif q in self.sink_params and q in self.prog.functions:
                        callee = self.prog.functions[q]
                        bound = astq.bind_args(callee, c, skip_self=callee.cls is not None and not isinstance(c.func, ast.Name))
                        for cp, arg in bound.items():
                            if cp in self.sink_params[q]:
                                for nm in value_carriers(arg):
                                    if nm in tainted:
                                        hits.append((nm, tainted[nm], [f"{fi.qualname}: {short(c, 50)}"] + self.sink_params[q][cp]))
                    for nm, srcs, chain in hits:
                        if fi not in self.touched:
                            self.touched.append(fi)
                        out.append({
                            "function": fi.qualname,
                            "construct": f"{norm(c.func).split('.')[-1]}(cost matrix) [inf sources: {'; '.join(sorted({self.kinds.get(s_, s_) for s_ in srcs}))}]",
                            "where": f"{fi.module.relpath}:{c.lineno}",
                            "message": f"`{nm}` may hold infinite entries ({'; '.join(srcs[:3])}) and reaches "
                                       f"linear_sum_assignment ({' -> '.join(chain)}): scipy raises ValueError('cost matrix is infeasible') "
                                       "when no complete assignment avoids them",
                            "chain": {"sources": srcs, "sink_chain": chain},
                        })
        # one finding per (function, construct)
        seen, uniq = set(), []
        for f in out:
            k = (f["function"], f["construct"])
            if k not in seen:
                seen.add(k)
                uniq.append(f)
        return uniq

    def stats(self, scope_prefix: str) -> Dict[str, int]:
        n_sink = 0
        for fi in self.prog.functions.values():
            if fi.module.name.startswith(scope_prefix):
                for c in [n for n in walk_function(fi.node) if isinstance(n, ast.Call)]:
                    for q in self.callees(fi, c):
                        if q == SINK or q in self.sink_params:
                            n_sink += 1
        return {
            "sink_call_sites": n_sink,
            "functions_returning_inf": len(self.returns_inf),
            "functions_with_sink_params": len(self.sink_params),
        }


def selftest_inf_names():
    import ast as _a

    assert is_inf(_a.parse("np.inf", mode="eval").body)
    assert is_inf(_a.parse("-torch.inf", mode="eval").body)
    assert is_inf(_a.parse('float("inf")', mode="eval").body)
    assert not is_inf(_a.parse("1e9", mode="eval").body)
