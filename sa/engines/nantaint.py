"""E4a — NaN taint, flow-sensitive over the CFG, with function summaries.

Tainted = may contain NaN.  Sources: designated parameters; division by a value that is not
known to be strictly positive (0/0).  Propagation: every arithmetic / call mentioning a tainted
value.  Sanitizers: nan_to_num, where(isnan(x), c, x), masked store x[isnan(x)] = c (directly
or through a mask name), nan-aware reductions, comparisons.
"""

from __future__ import annotations

import ast
from typing import Dict, FrozenSet, List, Optional, Set, Tuple

from ..core import astq
from ..core.cfg import CFG, Node
from ..core.program import FunctionInfo, Program, norm, short
from . import sign as S

SANITIZE = {"nan_to_num"}
NAN_AWARE = {"nanmin", "nanmax", "nanmean", "nansum", "nanmedian", "isnan", "isinf", "isfinite", "any", "all", "shape", "size", "dim", "numel"}
CLEAN_FUNCS = {"zeros", "zeros_like", "ones", "ones_like", "arange", "full", "full_like", "linspace", "meshgrid", "tensor", "eye", "len", "range", "int", "float"}


class NanTaint:
    def __init__(self, prog: Program, positive: Optional[Dict[str, Set[str]]] = None):
        self.prog = prog
        self.positive = positive or {}  # qualname -> names assumed strictly positive (sigma, strides)
        self.memo: Dict[Tuple[str, FrozenSet[str]], Tuple[bool, List[str]]] = {}
        self._stack: List[Tuple[str, FrozenSet[str]]] = []
        self.div_sources: List[str] = []
        self.analysed: Set[str] = set()

    # --------------------------------------------------------------- helpers
    def _is_isnan_of(self, fi: FunctionInfo, e: ast.AST, name: str, fn: ast.AST) -> bool:
        """Is `e` a mask that is true exactly where `name` is NaN (isnan(name), or a name bound to it)?"""
        if isinstance(e, ast.Call) and norm(e.func).split(".")[-1] == "isnan":
            a = e.args[0] if e.args else (e.func.value if isinstance(e.func, ast.Attribute) else None)
            return a is not None and norm(a) == name
        if isinstance(e, ast.Name):
            defs = [s for s in astq.assignments_to(fn, e.id) if isinstance(s, ast.Assign)]
            return len(defs) == 1 and self._is_isnan_of(fi, defs[0].value, name, fn)
        return False

    def tainted(self, fi: FunctionInfo, e: ast.AST, T: FrozenSet[str], sg: S.Sign) -> bool:
        if e is None or isinstance(e, ast.Constant):
            return False
        if isinstance(e, ast.Name):
            return e.id in T
        if isinstance(e, ast.Attribute):
            if e.attr in ("shape", "ndim", "dtype", "device"):
                return False
            t = norm(e)
            if t in ("torch.nan", "np.nan", "numpy.nan", "math.nan"):
                return True
            return t in T or self.tainted(fi, e.value, T, sg)
        if isinstance(e, ast.Subscript):
            return self.tainted(fi, e.value, T, sg)
        if isinstance(e, (ast.Compare,)):
            return False
        if isinstance(e, ast.BoolOp):
            return any(self.tainted(fi, v, T, sg) for v in e.values)
        if isinstance(e, ast.UnaryOp):
            return False if isinstance(e.op, (ast.Not, ast.Invert)) else self.tainted(fi, e.operand, T, sg)
        if isinstance(e, ast.BinOp):
            t = self.tainted(fi, e.left, T, sg) or self.tainted(fi, e.right, T, sg)
            if isinstance(e.op, (ast.Div, ast.FloorDiv, ast.Mod)) and not t:
                d = sg.of(e.right)
                if d not in (S.POS, S.PUNIT, S.NEG) and not isinstance(e.right, ast.Constant):
                    src = f"{fi.qualname}: {short(e, 60)} (denominator sign {d})"
                    if src not in self.div_sources:
                        self.div_sources.append(src)
                    return True
            return t
        if isinstance(e, ast.IfExp):
            return self.tainted(fi, e.body, T, sg) or self.tainted(fi, e.orelse, T, sg)
        if isinstance(e, (ast.Tuple, ast.List, ast.Set)):
            return any(self.tainted(fi, v, T, sg) for v in e.elts)
        if isinstance(e, ast.Dict):
            return any(self.tainted(fi, v, T, sg) for v in e.values)
        if isinstance(e, (ast.ListComp, ast.GeneratorExp)):
            T2 = set(T)
            for g in e.generators:
                if self.tainted(fi, g.iter, frozenset(T2), sg):
                    T2 |= astq.target_names(g.target)
            return self.tainted(fi, e.elt, frozenset(T2), sg)
        if isinstance(e, ast.Starred):
            return self.tainted(fi, e.value, T, sg)
        if isinstance(e, ast.Call):
            return self._call(fi, e, T, sg)
        if isinstance(e, ast.JoinedStr):
            return False
        return any(self.tainted(fi, c, T, sg) for c in ast.iter_child_nodes(e))

    def _call(self, fi: FunctionInfo, c: ast.Call, T: FrozenSet[str], sg: S.Sign) -> bool:
        q = self.prog.resolve_call(fi, c)
        f = c.func
        name = f.attr if isinstance(f, ast.Attribute) else (f.id if isinstance(f, ast.Name) else "")
        args = list(c.args) + [k.value for k in c.keywords]
        recv = f.value if isinstance(f, ast.Attribute) and norm(f.value) not in ("torch", "np", "numpy", "F", "K", "math", "tvf", "T") else None
        if name in SANITIZE:
            fill = [k.value for k in c.keywords if k.arg == "nan"]
            return any(self.tainted(fi, v, T, sg) for v in fill)
        if name in NAN_AWARE or name in CLEAN_FUNCS:
            if name in ("full", "full_like", "tensor"):
                return any(self.tainted(fi, a, T, sg) for a in args)
            return False
        # x.masked_fill(isnan(x), c) / torch.masked_fill(x, isnan(x), c) is clean when c is clean
        if name in ("masked_fill", "masked_fill_"):
            if isinstance(f, ast.Attribute) and norm(f.value) not in ("torch",) and len(c.args) == 2:
                x, mask, fillv = f.value, c.args[0], c.args[1]
            elif len(c.args) == 3:
                x, mask, fillv = c.args
            else:
                x = mask = fillv = None
            if x is not None and isinstance(x, (ast.Name, ast.Attribute, ast.Subscript)) and self._is_isnan_of(fi, mask, norm(x), fi.node):
                return self.tainted(fi, fillv, T, sg)
        if name == "where" and len(c.args) == 3:
            cond, a, b = c.args
            # where(isnan(x), c, x) is clean when c is clean
            for x in (a, b):
                other = b if x is a else a
                if isinstance(x, (ast.Name, ast.Attribute, ast.Subscript)) and self._is_isnan_of(fi, cond, norm(x), fi.node):
                    if x is b:
                        return self.tainted(fi, a, T, sg)
            return self.tainted(fi, a, T, sg) or self.tainted(fi, b, T, sg)
        if q in self.prog.functions:
            callee = self.prog.functions[q]
            bound = astq.bind_args(callee, c, skip_self=callee.cls is not None and isinstance(f, ast.Attribute))
            tp = frozenset(p for p, a in bound.items() if self.tainted(fi, a, T, sg))
            t, _ = self.returns_tainted(callee, tp)
            return t
        if recv is not None and self.tainted(fi, recv, T, sg):
            return True
        return any(self.tainted(fi, a, T, sg) for a in args)

    # ------------------------------------------------------------- functions
    def returns_tainted(self, fi: FunctionInfo, tainted_params: FrozenSet[str]) -> Tuple[bool, List[str]]:
        key = (fi.qualname, tainted_params)
        if key in self.memo:
            return self.memo[key]
        if key in self._stack:
            return False, []
        self._stack.append(key)
        try:
            states, sg, cfg = self.run(fi, tainted_params)
            why: List[str] = []
            t = False
            for n, T in states.items():
                a = cfg.nodes[n].ast
                if cfg.nodes[n].kind == "stmt" and isinstance(a, ast.Return) and a.value is not None:
                    if self.tainted(fi, a.value, T, sg):
                        t = True
                        why.append(f"{fi.module.relpath}:{a.lineno} `{short(a, 60)}` with tainted {sorted(astq.loads_in(a.value) & T)}")
                if cfg.nodes[n].kind == "stmt" and isinstance(a, ast.Expr) and isinstance(a.value, (ast.Yield, ast.YieldFrom)) and a.value.value is not None:
                    if self.tainted(fi, a.value.value, T, sg):
                        t = True
                        why.append(f"{fi.module.relpath}:{a.lineno} yields tainted value")
        finally:
            self._stack.pop()
        self.memo[key] = (t, why)
        return t, why

    def run(self, fi: FunctionInfo, tainted_params: FrozenSet[str]):
        """IN-state (set of tainted names / dict-key pseudo names) per CFG node."""
        self.analysed.add(fi.qualname)
        cfg = CFG(fi.node)
        env = {n: S.POS for n in self.positive.get(fi.qualname, set())}
        sg = S.Sign(fi.node, env)

        def assign(t: ast.AST, tainted: bool, T: Set[str]):
            if isinstance(t, ast.Name):
                (T.add if tainted else T.discard)(t.id)
            elif isinstance(t, (ast.Tuple, ast.List)):
                for x in t.elts:
                    assign(x, tainted, T)
            elif isinstance(t, ast.Starred):
                assign(t.value, tainted, T)
            elif isinstance(t, ast.Subscript) and isinstance(t.slice, ast.Constant) and isinstance(t.slice.value, str):
                (T.add if tainted else T.discard)(norm(t))
            elif isinstance(t, ast.Attribute):
                (T.add if tainted else T.discard)(norm(t))

        def transfer(node: Node, Tin):
            T = set(Tin)
            a = node.ast
            if a is None or node.kind in ("entry", "exit", "raise", "join", "except"):
                return frozenset(T)
            if node.kind == "test":
                if isinstance(a, (ast.For, ast.AsyncFor)):
                    assign(a.target, self.tainted(fi, a.iter, frozenset(T), sg), T)
                return frozenset(T)
            if isinstance(a, ast.Assign):
                fz = frozenset(T)
                for t in a.targets:
                    if isinstance(t, ast.Subscript) and not (isinstance(t.slice, ast.Constant) and isinstance(t.slice.value, str)):
                        base = norm(t.value)
                        vt = self.tainted(fi, a.value, fz, sg)
                        if self._is_isnan_of(fi, t.slice, base, fi.node) and not vt:
                            T.discard(base)  # x[isnan(x)] = clean  scrubs x
                        elif vt:
                            T.add(base)
                    elif isinstance(t, (ast.Tuple, ast.List)) and isinstance(a.value, (ast.Tuple, ast.List)) and len(t.elts) == len(a.value.elts):
                        for tt, vv in zip(t.elts, a.value.elts):
                            assign(tt, self.tainted(fi, vv, fz, sg), T)
                    else:
                        assign(t, self.tainted(fi, a.value, fz, sg), T)
            elif isinstance(a, ast.AugAssign):
                fz = frozenset(T)
                if self.tainted(fi, a.value, fz, sg) or self.tainted(fi, a.target, fz, sg):
                    if isinstance(a.target, ast.Name):
                        T.add(a.target.id)
                    else:
                        T.add(norm(a.target.value) if isinstance(a.target, ast.Subscript) else norm(a.target))
                elif isinstance(a.op, (ast.Div, ast.FloorDiv)) and sg.of(a.value) not in (S.POS, S.PUNIT, S.NEG) and not isinstance(a.value, ast.Constant):
                    T.add(norm(a.target))
            elif isinstance(a, ast.AnnAssign) and a.value is not None:
                assign(a.target, self.tainted(fi, a.value, frozenset(T), sg), T)
            elif isinstance(a, ast.Expr) and isinstance(a.value, ast.Call) and isinstance(a.value.func, ast.Attribute) and a.value.func.attr.endswith("_") \
                    and not a.value.func.attr.startswith("_") and isinstance(a.value.func.value, (ast.Name, ast.Attribute)) and norm(a.value.func.value) not in ("torch", "np"):
                # in-place tensor method as a statement:  x.masked_fill_(isnan(x), c) / x.nan_to_num_()  scrub x;  x.add_(t) taints it
                recv, meth = a.value.func.value, a.value.func.attr
                as_value = ast.Call(func=ast.Attribute(value=recv, attr=meth[:-1] if meth[:-1] in SANITIZE else meth, ctx=ast.Load()), args=a.value.args, keywords=a.value.keywords)
                assign(recv, self.tainted(fi, as_value, frozenset(T), sg), T)
            return frozenset(T)

        init = frozenset(tainted_params)
        IN = cfg.forward(init, transfer, lambda x, y: x | y)
        return IN, sg, cfg


def selftest_nantaint():
    import os
    import pathlib
    import shutil
    import tempfile
    import textwrap

    src = textwrap.dedent(
        """
        import torch
        def good(points, xv, sigma):
            cm = torch.exp(-((xv - points) ** 2) / (2 * sigma**2))
            cm = torch.nan_to_num(cm)
            return cm
        def bad(points, xv, sigma):
            points = torch.nan_to_num(points)
            cm = torch.exp(-((xv - points) ** 2) / (2 * sigma**2)) / points.sum()
            return cm
        def scrub(a, b, n):
            acc = torch.zeros(3)
            for i in range(n):
                p = (b[i] - a[i]) / torch.norm(b[i] - a[i])
                p[torch.isnan(p)] = 0.0
                acc += p
            return acc
        def noscrub(a, b, n):
            acc = torch.zeros(3)
            for i in range(n):
                p = (b[i] - a[i]) / torch.norm(b[i] - a[i])
                acc += p
            return acc
        def caller(pts, xv, sigma):
            return torch.maximum(torch.zeros(3), good(pts, xv, sigma))
        """
    )
    d = tempfile.mkdtemp()
    try:
        os.makedirs(os.path.join(d, "sleap_nn"))
        pathlib.Path(d, "sleap_nn", "m.py").write_text(src)
        prog = Program(d)
        nt = NanTaint(prog, {"sleap_nn.m:good": {"sigma"}, "sleap_nn.m:bad": {"sigma"}})
        assert nt.returns_tainted(prog.func("sleap_nn.m:good"), frozenset({"points"}))[0] is False
        assert nt.returns_tainted(prog.func("sleap_nn.m:bad"), frozenset({"points"}))[0] is True
        assert nt.returns_tainted(prog.func("sleap_nn.m:scrub"), frozenset({"a", "b"}))[0] is False
        assert nt.returns_tainted(prog.func("sleap_nn.m:scrub"), frozenset())[0] is False
        assert nt.returns_tainted(prog.func("sleap_nn.m:noscrub"), frozenset())[0] is True  # 0/0
        assert nt.returns_tainted(prog.func("sleap_nn.m:caller"), frozenset({"pts"}))[0] is False
    finally:
        shutil.rmtree(d)
