def selfcheck_all():
    """Collect test_* functions of every engine module."""
    import importlib
    import pkgutil

    out = []
    for m in pkgutil.iter_modules(__path__):
        mod = importlib.import_module(f"{__name__}.{m.name}")
        for k in sorted(dir(mod)):
            if k.startswith("selftest_"):
                out.append(getattr(mod, k))
    return out
