"""Read-before-write analysis of `self.<attr>` inside a method (callees on self inlined by summary).

An attribute that a method (or a callee on the same object) WRITES and that some path READS
before any write of the same call is a value flowing from one call to the next."""

from __future__ import annotations

import ast
from typing import Dict, FrozenSet, List, Optional, Set, Tuple

from ..core.cfg import CFG, Node
from ..core.program import ClassInfo, FunctionInfo, Program, norm, walk_function

MUTATORS = {"append", "extend", "update", "add", "pop", "clear", "insert", "setdefault", "remove", "popitem", "appendleft"}


def _self_attr(n: ast.AST) -> Optional[str]:
    if isinstance(n, ast.Attribute) and isinstance(n.value, ast.Name) and n.value.id == "self":
        return n.attr
    return None


class Summary:
    def __init__(self):
        self.rbw: Set[str] = set()         # read on some path before any write in this call
        self.rbw_sites: Dict[str, int] = {}
        self.must_writes: FrozenSet[str] = frozenset()
        self.may_writes: Set[str] = set()
        self.mutated: Dict[str, int] = {}  # container attributes mutated in place -> line


class SelfState:
    def __init__(self, prog: Program):
        self.prog = prog
        self.memo: Dict[str, Summary] = {}
        self.stats = {"cfg_nodes": 0, "methods": 0}

    def _events(self, fi: FunctionInfo, node: Node) -> Tuple[List[Tuple[str, int]], Set[str], List[FunctionInfo], Dict[str, int]]:
        """(reads with line, writes, self-callees, in-place mutations) of one CFG node."""
        a = node.ast
        if a is None or node.kind in ("entry", "exit", "raise", "join", "except"):
            return [], set(), [], {}
        roots: List[ast.AST] = []
        if node.kind == "test":
            if isinstance(a, (ast.If, ast.While)):
                roots = [a.test]
            elif isinstance(a, (ast.For, ast.AsyncFor)):
                roots = [a.iter, a.target]
            elif isinstance(a, (ast.With, ast.AsyncWith)):
                roots = [i.context_expr for i in a.items]
        elif isinstance(a, (ast.FunctionDef, ast.AsyncFunctionDef, ast.ClassDef)):
            roots = []
        else:
            roots = [a]
        reads: List[Tuple[str, int]] = []
        writes: Set[str] = set()
        callees: List[FunctionInfo] = []
        mutated: Dict[str, int] = {}
        for r in roots:
            for n in ast.walk(r):
                x = _self_attr(n)
                if x is not None:
                    par = getattr(n, "_parent", None)
                    if isinstance(n.ctx, ast.Store):
                        writes.add(x)
                        if isinstance(par, ast.AugAssign) and par.target is n:
                            reads.append((x, n.lineno))
                    elif isinstance(n.ctx, ast.Del):
                        writes.add(x)
                    else:
                        gp = getattr(par, "_parent", None)
                        if isinstance(par, ast.Call) and par.func is n:
                            m = self.prog.lookup_method(fi.cls, x) if fi.cls is not None else None
                            if m is not None:
                                callees.append(m)
                                continue
                        if isinstance(par, ast.Attribute) and par.attr in MUTATORS and isinstance(gp, ast.Call) and gp.func is par:
                            mutated[x] = n.lineno
                        if isinstance(par, ast.Subscript) and par.value is n and isinstance(par.ctx, (ast.Store, ast.Del)):
                            mutated[x] = n.lineno
                        reads.append((x, n.lineno))
        return reads, writes, callees, mutated

    def summary(self, fi: FunctionInfo, depth: int = 0) -> Summary:
        if fi.qualname in self.memo:
            return self.memo[fi.qualname]
        s = Summary()
        self.memo[fi.qualname] = s  # recursion guard (empty summary)
        cfg = CFG(fi.node)
        self.stats["cfg_nodes"] += cfg.g.number_of_nodes()
        self.stats["methods"] += 1
        ev = {i: self._events(fi, n) for i, n in cfg.nodes.items()}
        subs = {}
        for i, (_, _, callees, _) in ev.items():
            for c in callees:
                if depth < 4:
                    subs[c.qualname] = self.summary(c, depth + 1)

        def transfer(node: Node, W):
            reads, writes, callees, mutated = ev[node.id]
            out = set(W)
            for c in callees:
                if c.qualname in subs:
                    out |= subs[c.qualname].must_writes
            out |= writes
            return frozenset(out)

        UNIVERSE = None

        def join(a, b):
            return a & b

        IN = cfg.forward(frozenset(), transfer, join)
        for i, W in IN.items():
            reads, writes, callees, mutated = ev[i]
            for x, line in reads:
                if x not in W:
                    s.rbw.add(x)
                    s.rbw_sites.setdefault(x, line)
            for c in callees:
                sub = subs.get(c.qualname)
                if sub is None:
                    continue
                for x in sub.rbw:
                    if x not in W:
                        s.rbw.add(x)
                        s.rbw_sites.setdefault(x, cfg.nodes[i].lineno)
                s.may_writes |= sub.may_writes
                for x, l in sub.mutated.items():
                    if x not in W:
                        s.mutated.setdefault(x, l)
            s.may_writes |= writes
            for x, l in mutated.items():
                if x not in W:  # a container re-bound earlier in this very call is call-local
                    s.mutated.setdefault(x, l)
        s.must_writes = IN.get(cfg.exit, frozenset())
        return s


def selftest_selfstate():
    import textwrap
    from ..core.program import set_parents, Program

    src = textwrap.dedent(
        """
        class M:
            def helper(self):
                return self.scratch + 1
            def forward(self, x):
                if self.flag == "same":
                    x = x + 1
                    self.flag = 0
                self.scratch = x
                y = self.helper()
                self.count += 1
                return y
        """
    )
    import tempfile, os, pathlib

    d = tempfile.mkdtemp()
    try:
        os.makedirs(os.path.join(d, "sleap_nn"))
        pathlib.Path(d, "sleap_nn", "m.py").write_text(src)
        prog = Program(d)
        ss = SelfState(prog)
        s = ss.summary(prog.func("sleap_nn.m:M.forward"))
        assert "flag" in s.rbw and "flag" in s.may_writes, s.rbw
        assert "scratch" not in s.rbw, s.rbw
        assert "count" in s.rbw and "count" in s.may_writes
    finally:
        import shutil

        shutil.rmtree(d)
