"""E2 (part 2) — abstract interpreter of the repo's own code over coordinate-frame values.

Repo functions are interpreted (not tabulated); only external leaves and a few documented
contracts (geomleaf.py) have built-in transfer functions.  The heap is explicit
(id -> HDict/HList/HObj, copy-on-write) so that branches are interpreted on a copied heap and
joined cell-wise.  A value that becomes Top on the way to an obligation makes the obligation
inconclusive (exit 2), never a violation.
"""

from __future__ import annotations

import ast
from typing import Callable, Dict, List, Optional, Set, Tuple

from ..core import astq
from ..core.program import AnalysisError, ClassInfo, FunctionInfo, Program, norm, short
from .geomval import (strip_aug, strip_offs, ONE, Cfg, Cms, Const, Func, Geo, HDict, HList, HObj, Mismatch, Mono, Num, Other, Ref, Shape, Top, Tup, V, join)

PASS_METHODS = {
    "unsqueeze", "squeeze", "to", "cpu", "cuda", "numpy", "detach", "float", "double", "half", "clone", "copy", "reshape", "view", "permute",
    "transpose", "contiguous", "astype", "repeat", "expand", "flatten", "type", "long", "int", "nan_to_num", "round", "movedim", "tolist", "item",
    "requires_grad_", "as_posix", "convert", "get_device",
}
OTHER_METHODS = {"isnan", "any", "all", "nonzero", "size", "dim", "sum", "mean", "max", "min", "argmax", "argsort", "numel", "index", "keys", "format",
                 "startswith", "endswith", "join", "exists", "mkdir", "is_dir", "close", "eval", "start", "total_len", "count", "bool", "split"}


class Obligation:
    def __init__(self, rule: str, ok: Optional[bool], construct: str, message: str, where: str, derivation=None):
        self.rule, self.ok, self.construct, self.message, self.where, self.derivation = rule, ok, construct, message, where, derivation


class Frame:
    def __init__(self, fi: Optional[FunctionInfo], env: Dict[str, V], self_val: Optional[V] = None):
        self.fi = fi
        self.env = env
        self.self_val = self_val
        self.alive = True
        self.ret: Optional[V] = None
        self.yields: Optional[V] = None
        self.is_gen = False
        self.ret_heaps: List[Dict[int, object]] = []  # heap at each return (joined when the call ends)
        self.loop_exits: List[List[Tuple[Dict[int, object], Dict[str, V]]]] = []  # break states per loop
        self.loop_conts: List[List[Tuple[Dict[int, object], Dict[str, V]]]] = []


class Interp:
    def __init__(self, prog: Program):
        self.prog = prog
        self.heap: Dict[int, object] = {}
        self._next = 1
        self.obligations: List[Obligation] = []
        self.trace: List[str] = []
        self.depth = 0
        self.sites: Dict[str, int] = {}
        self.leaves = None  # set by geomleaf.install
        self.assumed_passthrough: Dict[str, int] = {}
        self.calls_interpreted: Set[str] = set()
        self.tops: List[str] = []
        self.max_depth = 14
        from . import geomleaf

        geomleaf.install(self)

    # ------------------------------------------------------------------ heap
    def new(self, obj) -> Ref:
        i = self._next
        self._next += 1
        self.heap[i] = obj
        return Ref(i)

    def obj(self, r: Ref):
        return self.heap.get(r.id)

    def write(self, r: Ref, obj) -> None:
        self.heap[r.id] = obj

    def new_dict(self, cells: Optional[Dict[str, V]] = None, default: Optional[V] = None) -> Ref:
        return self.new(HDict(dict(cells or {}), default))

    def new_list(self, elem: Optional[V] = None) -> Ref:
        return self.new(HList(elem))

    def new_obj(self, cls: str, attrs: Optional[Dict[str, V]] = None) -> Ref:
        return self.new(HObj(cls, dict(attrs or {})))

    def oblig(self, rule: str, ok: Optional[bool], construct: str, message: str, where: str = "", derivation=None) -> None:
        self.obligations.append(Obligation(rule, ok, construct, message, where, derivation))

    def top(self, why: str) -> Top:
        if why not in self.tops:
            self.tops.append(why)
        return Top(why)

    def site(self, fr: Frame, node: ast.AST, kind: str) -> str:
        q = fr.fi.qualname.split(":")[-1] if fr.fi else "?"
        return f"{kind}@{q}"

    def where(self, fr: Frame, node: ast.AST) -> str:
        return f"{fr.fi.module.relpath}:{getattr(node, 'lineno', 0)}" if fr.fi else ""

    # ------------------------------------------------------------ state join
    def _snapshot(self, fr: Frame):
        return dict(self.heap), dict(fr.env)

    def _restore(self, fr: Frame, snap) -> None:
        self.heap = dict(snap[0])
        fr.env = dict(snap[1])

    def _join_heap(self, h1: Dict[int, object], h2: Dict[int, object]) -> Dict[int, object]:
        out: Dict[int, object] = {}
        for i in set(h1) | set(h2):
            a, b = h1.get(i), h2.get(i)
            if a is None or b is None or a is b:
                out[i] = a if a is not None else b
                continue
            if isinstance(a, HDict) and isinstance(b, HDict):
                cells = {}
                for k in set(a.cells) | set(b.cells):
                    cells[k] = join(a.cells.get(k), b.cells.get(k), f"key {k!r}")
                out[i] = HDict(cells, join(a.default, b.default))
            elif isinstance(a, HList) and isinstance(b, HList):
                out[i] = HList(join(a.elem, b.elem, "list element"))
            elif isinstance(a, HObj) and isinstance(b, HObj):
                attrs = {}
                for k in set(a.attrs) | set(b.attrs):
                    attrs[k] = join(a.attrs.get(k), b.attrs.get(k), f"attribute {k}")
                out[i] = HObj(a.cls, attrs)
            else:
                out[i] = a
        return out

    def _join_states(self, fr: Frame, states: List[Tuple[Dict[int, object], Dict[str, V]]]) -> bool:
        """Install the join of `states` as the current state; False if there is none (dead)."""
        if not states:
            return False
        h, e = states[0]
        h, e = dict(h), dict(e)
        for h2, e2 in states[1:]:
            h = self._join_heap(h, h2)
            e = {k: join(e.get(k), e2.get(k), f"variable {k}") for k in set(e) | set(e2)}
        self.heap, fr.env = h, e
        return True

    def _canon(self, v, seen, depth=0) -> str:
        if isinstance(v, Ref):
            if v.id in seen or depth > 6:
                return "ref*"
            seen = seen | {v.id}
            o = self.heap.get(v.id)
            if isinstance(o, HDict):
                return "{" + ",".join(f"{k}:{self._canon(x, seen, depth + 1)}" for k, x in sorted(o.cells.items())) + f"|{self._canon(o.default, seen, depth + 1)}" + "}"
            if isinstance(o, HList):
                return "[" + self._canon(o.elem, seen, depth + 1) + "]"
            if isinstance(o, HObj):
                return o.cls + "(" + ",".join(f"{k}:{self._canon(x, seen, depth + 1)}" for k, x in sorted(o.attrs.items())) + ")"
            return "ref?"
        if isinstance(v, Tup):
            return "(" + ",".join(self._canon(x, seen, depth + 1) for x in v.elts) + ")"
        if isinstance(v, Shape):
            return "shape(" + self._canon(v.of, seen, depth + 1) + ")"
        import re

        return re.sub(r"ref\d+", "ref", repr(v))

    def _state_key(self, fr: Frame) -> str:
        """Structural key of the state reachable from the frame (allocation identities ignored)."""
        return "|".join(f"{k}={self._canon(v, frozenset())}" for k, v in sorted(fr.env.items()))

    # ------------------------------------------------------------- functions
    def call_function(self, fi: FunctionInfo, args: List[V], kwargs: Dict[str, V], self_val: Optional[V] = None, site: str = "") -> V:
        if self.depth >= self.max_depth:
            return self.top(f"call depth limit at {fi.qualname}")
        self.calls_interpreted.add(fi.qualname)
        a = fi.node.args
        env: Dict[str, V] = {}
        pos = [p.arg for p in a.posonlyargs + a.args]
        if self_val is not None and pos and pos[0] in ("self", "cls"):
            env[pos[0]] = self_val
            pos = pos[1:]
        elif pos and pos[0] == "cls" and fi.cls is not None:
            env["cls"] = Func("class", fi.cls.qualname)
            pos = pos[1:]
        for p, v in zip(pos, args):
            env[p] = v
        if len(args) > len(pos) and a.vararg:
            env[a.vararg.arg] = self.new_list(None)
        extra = {}
        names = set(pos) | {p.arg for p in a.kwonlyargs}
        for k, v in kwargs.items():
            if k in names:
                env[k] = v
            else:
                extra[k] = v
        if a.kwarg:
            env[a.kwarg.arg] = self.new_dict(extra)
        if a.vararg and a.vararg.arg not in env:
            env[a.vararg.arg] = self.new_list(None)
        fr = Frame(fi, env, self_val)
        # defaults
        defaults = fi.param_defaults()
        for p in list(pos) + [x.arg for x in a.kwonlyargs]:
            if p not in env:
                d = defaults.get(p)
                env[p] = self.eval(fr, d) if d is not None else self.top(f"missing argument {p} of {fi.qualname}")
        fr.is_gen = any(isinstance(n, (ast.Yield, ast.YieldFrom)) for n in astq.walk_function(fi.node))
        self.depth += 1
        try:
            self.exec_block(fr, self._body_of(fi))
        finally:
            self.depth -= 1
        heaps = list(fr.ret_heaps) + ([self.heap] if fr.alive or not fr.ret_heaps else [])
        h = dict(heaps[0])
        for h2 in heaps[1:]:
            h = self._join_heap(h, h2)
        self.heap = h
        if fr.is_gen:
            return self.new_list(fr.yields)
        return fr.ret if fr.ret is not None else Const(None)

    def instantiate(self, ci: ClassInfo, args: List[V], kwargs: Dict[str, V], site: str = "") -> V:
        r = self.new_obj(ci.qualname, {})
        init = self.prog.lookup_method(ci, "__init__")
        if init is not None:
            self.call_function(init, args, kwargs, self_val=r, site=site)
            return r
        # attrs-style class: fields with defaults, then keywords / positionals
        o = self.obj(r)
        attrs: Dict[str, V] = {}
        order: List[str] = []
        for c in reversed(self.prog.mro(ci)):
            for name, st in c.fields().items():
                order.append(name)
                if st.value is not None:
                    fr = Frame(None, {}, None)
                    fr.fi = c.methods.get("__attrs_post_init__") or next(iter(c.methods.values()), None)
                    v = st.value
                    if isinstance(v, ast.Call) and norm(v.func).split(".")[-1] in ("field", "ib"):
                        d = [k.value for k in v.keywords if k.arg == "default"]
                        attrs[name] = self.eval(fr, d[0]) if d and fr.fi else Other("field")
                    else:
                        attrs[name] = self.eval(fr, v) if fr.fi else Other("default")
        for n, v in zip(order, args):
            attrs[n] = v
        attrs.update(kwargs)
        self.write(r, HObj(ci.qualname, attrs))
        return r

    # ------------------------------------------------------------ statements
    def exec_block(self, fr: Frame, stmts: List[ast.stmt]) -> None:
        for st in stmts:
            if not fr.alive:
                return
            self.exec_stmt(fr, st)

    def _branch(self, fr: Frame, bodies: List[List[ast.stmt]]) -> None:
        snap = self._snapshot(fr)
        outs = []
        for body in bodies:
            self._restore(fr, snap)
            fr.alive = True
            self.exec_block(fr, body)
            if fr.alive:
                outs.append(self._snapshot(fr))
        fr.alive = self._join_states(fr, outs)

    def exec_stmt(self, fr: Frame, st: ast.stmt) -> None:
        if isinstance(st, ast.Expr):
            if isinstance(st.value, (ast.Yield, ast.YieldFrom)):
                v = self.eval(fr, st.value.value) if st.value.value is not None else Const(None)
                fr.yields = join(fr.yields, v, "yield")
            elif not isinstance(st.value, ast.Constant):
                self.eval(fr, st.value)
        elif isinstance(st, ast.Assign):
            v = self.eval(fr, st.value)
            for t in st.targets:
                self.assign(fr, t, v, st.value)
        elif isinstance(st, ast.AnnAssign):
            if st.value is not None:
                self.assign(fr, st.target, self.eval(fr, st.value), st.value)
        elif isinstance(st, ast.AugAssign):
            cur = self.eval(fr, st.target)
            rhs = self.eval(fr, st.value)
            v = self.binop(fr, st.op, cur, rhs, st)
            self.assign(fr, st.target, v, None)
        elif isinstance(st, ast.Return):
            v = self.eval(fr, st.value) if st.value is not None else Const(None)
            fr.ret = join(fr.ret, v, "return")
            fr.ret_heaps.append(dict(self.heap))
            fr.alive = False
        elif isinstance(st, ast.If):
            t = self.truth(fr, st.test)
            if t is True or t == "guard":
                self.exec_block(fr, st.body)
            elif t is False or t == "nguard":
                # `if scale == 1: return x` - the branch taken for the neutral value is the identity case of the other path
                self.exec_block(fr, st.orelse)
            else:
                self._branch(fr, [st.body, st.orelse])
        elif isinstance(st, (ast.For, ast.AsyncFor)):
            self.exec_for(fr, st)
        elif isinstance(st, ast.While):
            self.exec_loop(fr, st.body, None, None, st)
        elif isinstance(st, (ast.With, ast.AsyncWith)):
            for it in st.items:
                v = self.eval(fr, it.context_expr)
                if it.optional_vars is not None:
                    self.assign(fr, it.optional_vars, v, None)
            self.exec_block(fr, st.body)
        elif isinstance(st, ast.Try):
            self.exec_block(fr, st.body)
            if fr.alive:
                self.exec_block(fr, st.orelse)
            if st.finalbody:
                alive = fr.alive
                fr.alive = True
                self.exec_block(fr, st.finalbody)
                fr.alive = alive and fr.alive
        elif isinstance(st, ast.Raise):
            fr.alive = False
        elif isinstance(st, ast.Break):
            if fr.loop_exits:
                fr.loop_exits[-1].append(self._snapshot(fr))
            fr.alive = False
        elif isinstance(st, ast.Continue):
            if fr.loop_conts:
                fr.loop_conts[-1].append(self._snapshot(fr))
            fr.alive = False
        elif isinstance(st, ast.Delete):
            for t in st.targets:
                if isinstance(t, ast.Subscript):
                    base = self.eval(fr, t.value)
                    if isinstance(base, Ref) and isinstance(self.obj(base), HDict) and isinstance(t.slice, ast.Constant):
                        o = self.obj(base).copy()
                        o.cells.pop(t.slice.value, None)
                        self.write(base, o)
        elif isinstance(st, (ast.Pass, ast.Assert, ast.Import, ast.ImportFrom, ast.Global, ast.Nonlocal)):
            pass
        elif isinstance(st, (ast.FunctionDef, ast.AsyncFunctionDef)):
            q = f"{fr.fi.qualname}.<locals>.{st.name}" if fr.fi else st.name
            fr.env[st.name] = Func("function", q)
        else:
            self.top(f"statement {type(st).__name__} not modelled")

    def exec_for(self, fr: Frame, st: ast.For) -> None:
        it = st.iter
        # unroll  for k, v in D.items()  over the concrete keys of a heap dict
        if isinstance(it, ast.Call) and isinstance(it.func, ast.Attribute) and it.func.attr in ("items", "keys") and not it.args:
            base = self.eval(fr, it.func.value)
            if isinstance(base, Ref) and isinstance(self.obj(base), HDict) and self.obj(base).default is None:
                for k in sorted(self.obj(base).cells):
                    if not fr.alive:
                        break
                    cell = self.obj(base).cells.get(k)
                    if cell is None:
                        continue
                    val = Tup((Const(k), cell)) if it.func.attr == "items" else Const(k)
                    fr.loop_exits.append([])
                    fr.loop_conts.append([])
                    self.assign(fr, st.target, val, None)
                    self.exec_block(fr, st.body)
                    conts = fr.loop_conts.pop()
                    exits = fr.loop_exits.pop()
                    states = ([self._snapshot(fr)] if fr.alive else []) + conts
                    fr.alive = self._join_states(fr, states)
                    if exits:
                        states = ([self._snapshot(fr)] if fr.alive else []) + exits
                        fr.alive = self._join_states(fr, states)
                        break
                return
        elem = self.iter_elem(fr, it)
        self.exec_loop(fr, st.body, st.target, elem, st)
        if st.orelse and fr.alive:
            self.exec_block(fr, st.orelse)

    def _fresh_elem(self, v: V) -> V:
        """The elements of a list are distinct objects: every iteration sees its own copy of the summary object."""
        if isinstance(v, Ref):
            o = self.obj(v)
            return self.new(o.copy()) if o is not None else v
        if isinstance(v, Tup):
            return Tup(tuple(self._fresh_elem(x) for x in v.elts))
        return v

    @staticmethod
    def _dead_at_head(body: List[ast.stmt]) -> Set[str]:
        """Names unconditionally (re)assigned at the top level of a loop body before any read:
        their value at the loop head is never observed, so it is not joined across iterations."""
        assigned: Set[str] = set()
        live: Set[str] = set()
        for st in body:
            reads = astq.loads_in(st)
            if isinstance(st, ast.Assign) and all(isinstance(t, ast.Name) for t in st.targets):
                reads = astq.loads_in(st.value)
            live |= reads - assigned
            if isinstance(st, ast.Assign) and all(isinstance(t, ast.Name) for t in st.targets):
                assigned |= {t.id for t in st.targets}
        return assigned - live

    def exec_loop(self, fr: Frame, body: List[ast.stmt], target: Optional[ast.AST], elem: Optional[V], st: ast.stmt) -> None:
        dead = self._dead_at_head(body)
        pre = self._snapshot(fr)
        exits_all: List = []
        prev_key = None
        for _round in range(4):
            fr.loop_exits.append([])
            fr.loop_conts.append([])
            fr.alive = True
            if target is not None:
                self.assign(fr, target, self._fresh_elem(elem) if elem is not None else self.top("loop element"), None)
            self.exec_block(fr, body)
            conts = fr.loop_conts.pop()
            exits_all += fr.loop_exits.pop()
            end_env = dict(fr.env) if fr.alive else None
            states = ([self._snapshot(fr)] if fr.alive else []) + conts + [pre]
            self._join_states(fr, states)
            for k in dead:
                src = end_env if end_env is not None and k in end_env else pre[1]
                if k in src:
                    fr.env[k] = src[k]
            fr.alive = True
            key = self._state_key(fr)
            if key == prev_key:
                break
            prev_key = key
            pre = self._snapshot(fr)
        else:
            self.top(f"loop at {self.where(fr, st)} did not stabilise")
        states = [self._snapshot(fr)] + exits_all
        is_while_true = isinstance(st, ast.While) and isinstance(st.test, ast.Constant) and bool(st.test.value)
        if is_while_true:
            states = exits_all
        fr.alive = self._join_states(fr, states)

    # ---------------------------------------------------------------- assign
    def assign(self, fr: Frame, t: ast.AST, v: V, value_node: Optional[ast.AST]) -> None:
        if isinstance(t, ast.Name):
            fr.env[t.id] = v
        elif isinstance(t, (ast.Tuple, ast.List)):
            elts = self.unpack(fr, v, len(t.elts))
            for tt, vv in zip(t.elts, elts):
                self.assign(fr, tt, vv, None)
        elif isinstance(t, ast.Starred):
            self.assign(fr, t.value, v, None)
        elif isinstance(t, ast.Attribute):
            base = self.eval(fr, t.value)
            if isinstance(base, Ref):
                o = self.obj(base)
                if isinstance(o, HObj):
                    o = o.copy()
                    o.attrs[t.attr] = v
                    self.write(base, o)
                elif isinstance(o, HDict):
                    o = o.copy()
                    o.cells[t.attr] = v
                    self.write(base, o)
        elif isinstance(t, ast.Subscript):
            base = self.eval(fr, t.value)
            key = self.eval(fr, t.slice) if not isinstance(t.slice, (ast.Slice,)) else None
            if isinstance(base, Ref):
                o = self.obj(base)
                if isinstance(o, HDict):
                    o = o.copy()
                    if isinstance(key, Const) and isinstance(key.value, str):
                        o.cells[key.value] = v
                    else:
                        o.default = join(o.default, v, "dict value")
                    self.write(base, o)
                elif isinstance(o, HList):
                    self.write(base, HList(join(o.elem, v, "list element")))
                elif isinstance(o, HObj):
                    o = o.copy()
                    o.attrs["[*]"] = join(o.attrs.get("[*]"), v, "item")
                    self.write(base, o)
            elif isinstance(t.value, ast.Name):
                # tensor element store  x[i] = v : the tensor now may hold v's kind of value
                fr.env[t.value.id] = join(base, v, f"store into {t.value.id}")
            elif isinstance(t.value, ast.Subscript) or isinstance(t.value, ast.Attribute):
                self.assign(fr, t.value, join(base, v, "store"), None)

    def unpack(self, fr: Frame, v: V, n: int) -> List[V]:
        if isinstance(v, Tup) and len(v.elts) == n:
            return list(v.elts)
        if isinstance(v, Ref):
            o = self.obj(v)
            if isinstance(o, HList):
                return [o.elem if o.elem is not None else Other("empty")] * n
        if isinstance(v, Shape):
            return [Shape(v.of)] * n
        if isinstance(v, (Geo, Num, Other, Cfg, Const, Cms)):
            return [v if not isinstance(v, Const) else Other("elem")] * n
        if isinstance(v, Mismatch):
            return [v] * n
        return [self.top(f"cannot unpack {v!r} into {n}")] * n

    def iter_elem(self, fr: Frame, it: ast.AST) -> V:
        if isinstance(it, ast.Call):
            fn = norm(it.func)
            if fn == "zip":
                return Tup(tuple(self.iter_elem(fr, a) for a in it.args))
            if fn == "enumerate" and it.args:
                return Tup((Other("index"), self.iter_elem(fr, it.args[0])))
            if fn == "range":
                for a in it.args:
                    self.eval(fr, a)
                return Other("index")
            if fn in ("reversed", "sorted", "list", "tuple", "iter", "islice", "itertools.islice") and it.args:
                return self.iter_elem(fr, it.args[0])
        v = self.eval(fr, it)
        return self.elem_of(v)

    def elem_of(self, v: V) -> V:
        if isinstance(v, Ref):
            o = self.obj(v)
            if isinstance(o, HList):
                return o.elem if o.elem is not None else Other("empty")
            if isinstance(o, HDict):
                return Other("key")
            if isinstance(o, HObj):
                return self.leaves.iter_obj(self, v, o)
        if isinstance(v, Tup):
            out = None
            for e in v.elts:
                out = join(out, e, "tuple element")
            return out if out is not None else Other("empty")
        if isinstance(v, (Geo, Num, Cms, Other, Mismatch, Top)):
            return v
        if isinstance(v, Cfg):
            return Cfg(v.path + ("*",))
        if isinstance(v, Shape):
            return Other("dim")
        return Other("elem")

    # ----------------------------------------------------------------- truth
    def truth(self, fr: Frame, e: ast.AST):
        """True / False / None (unknown) / 'guard' (the `sym != 1` idiom: skipped branch is the identity)."""
        if isinstance(e, ast.BoolOp):
            vals = [self.truth(fr, v) for v in e.values]
            vals = [True if v == "guard" else (False if v == "nguard" else v) for v in vals]
            if isinstance(e.op, ast.And):
                if any(v is False for v in vals):
                    return False
                return True if all(v is True for v in vals) else None
            if any(v is True for v in vals):
                return True
            return False if all(v is False for v in vals) else None
        if isinstance(e, ast.UnaryOp) and isinstance(e.op, ast.Not):
            t = self.truth(fr, e.operand)
            if t == "guard":
                return "nguard"
            if t == "nguard":
                return "guard"
            return None if t is None else (not t)
        if isinstance(e, ast.Compare) and len(e.ops) == 1:
            l = self.eval(fr, e.left)
            r = self.eval(fr, e.comparators[0])
            op = e.ops[0]
            if isinstance(op, (ast.Is, ast.IsNot)) and isinstance(r, Const) and r.value is None:
                if isinstance(l, Const):
                    res = l.value is None
                elif isinstance(l, (Geo, Num, Ref, Cms, Tup, Cfg, Func, Shape)):
                    res = False
                else:
                    return None
                return res if isinstance(op, ast.Is) else (not res)
            if isinstance(op, (ast.Eq, ast.NotEq)) and isinstance(l, Const) and isinstance(r, Const):
                res = l.value == r.value
                return res if isinstance(op, ast.Eq) else (not res)
            if isinstance(op, ast.NotEq) and isinstance(l, (Num, Cfg)) and isinstance(r, Const) and r.value in (1, 1.0):
                return "guard"
            if isinstance(op, ast.Eq) and isinstance(l, (Num, Cfg)) and isinstance(r, Const) and r.value in (1, 1.0):
                return "nguard"
            if isinstance(op, (ast.NotEq, ast.Gt)) and isinstance(r, Const) and r.value == 0 and isinstance(e.left, ast.Call):
                # emptiness guard  `t.size(0) != 0` / `len(t) > 0` on a coordinate tensor: the skipped branch holds no coordinates
                c = e.left
                tgt = c.func.value if isinstance(c.func, ast.Attribute) and c.func.attr in ("size", "numel") else (c.args[0] if norm(c.func) == "len" and c.args else None)
                if tgt is not None and isinstance(self.eval(fr, tgt), Geo):
                    return "guard"
            if isinstance(op, (ast.In, ast.NotIn)) and isinstance(l, Const) and isinstance(r, Ref) and isinstance(self.obj(r), HDict) and self.obj(r).default is None:
                res = l.value in self.obj(r).cells
                return res if isinstance(op, ast.In) else (not res)
            return None
        if isinstance(e, ast.Call) and norm(e.func) == "isinstance" and len(e.args) == 2:
            v = self.eval(fr, e.args[0])
            if isinstance(v, Ref) and isinstance(self.obj(v), HObj):
                cls = self.obj(v).cls
                names = [norm(x).split(".")[-1] for x in (e.args[1].elts if isinstance(e.args[1], ast.Tuple) else [e.args[1]])]
                ci = self.prog.classes.get(cls)
                if ci is not None:
                    mro = [c.name for c in self.prog.mro(ci)]
                    return any(n in mro for n in names)
                return cls.split(":")[-1] in names
            if isinstance(v, Const):
                return type(v.value).__name__ in [norm(x) for x in (e.args[1].elts if isinstance(e.args[1], ast.Tuple) else [e.args[1]])]
            return None
        v = self.eval(fr, e)
        if isinstance(v, Const):
            return bool(v.value)
        if isinstance(v, Other) and v.tag.startswith("model:"):
            return True
        if isinstance(v, Ref) and isinstance(self.obj(v), HObj):
            return True
        if isinstance(v, Ref) and isinstance(self.obj(v), HDict) and self.obj(v).default is None:
            return bool(self.obj(v).cells)
        return None

    # ------------------------------------------------------------------ eval
    def eval(self, fr: Frame, e: Optional[ast.AST]) -> V:
        if e is None:
            return Const(None)
        m = getattr(self, "_e_" + type(e).__name__, None)
        if m is None:
            return self.top(f"expression {type(e).__name__} not modelled")
        return m(fr, e)

    def _e_Constant(self, fr, e):
        return Const(e.value)

    def _e_Name(self, fr, e):
        if e.id in fr.env:
            return fr.env[e.id]
        if fr.fi is not None and astq.assignments_to(fr.fi.node, e.id):
            return Other("unbound", fill=True)  # a local that is not bound on this path yet
        if e.id in ("True", "False", "None"):
            return Const({"True": True, "False": False, "None": None}[e.id])
        if fr.fi is not None:
            q = self.prog.resolve_expr_name(fr.fi.module, e)
            if q:
                if q in self.prog.functions:
                    return Func("function", q)
                if q in self.prog.classes:
                    return Func("class", q)
                return Func("external", q)
            # nested function of an enclosing function
            qn = f"{fr.fi.qualname}.<locals>.{e.id}"
            if qn in self.prog.functions:
                return Func("function", qn)
        return Func("external", f"builtins.{e.id}")

    def _e_Tuple(self, fr, e):
        return Tup(tuple(self.eval(fr, x) for x in e.elts))

    def _e_List(self, fr, e):
        out = None
        for x in e.elts:
            v = self.eval(fr, x.value if isinstance(x, ast.Starred) else x)
            v = self.elem_of(v) if isinstance(x, ast.Starred) else v
            out = join(out, v, "list literal")
        return self.new_list(out)

    def _e_Set(self, fr, e):
        return self._e_List(fr, e)

    def _e_Dict(self, fr, e):
        cells: Dict[str, V] = {}
        default = None
        for k, v in zip(e.keys, e.values):
            val = self.eval(fr, v)
            if k is None:  # **other
                if isinstance(val, Ref) and isinstance(self.obj(val), HDict):
                    cells.update(self.obj(val).cells)
                continue
            kv = self.eval(fr, k)
            if isinstance(kv, Const) and isinstance(kv.value, str):
                cells[kv.value] = val
            else:
                default = join(default, val, "dict value")
        return self.new_dict(cells, default)

    def _e_JoinedStr(self, fr, e):
        return Other("str")

    def _e_Lambda(self, fr, e):
        return Other("lambda")

    def _e_IfExp(self, fr, e):
        t = self.truth(fr, e.test)
        if t is True or t == "guard":
            return self.eval(fr, e.body)
        if t is False or t == "nguard":
            return self.eval(fr, e.orelse)
        return join(self.eval(fr, e.body), self.eval(fr, e.orelse), "conditional expression")

    def _e_BoolOp(self, fr, e):
        out = None
        for v in e.values:
            out = join(out, self.eval(fr, v), "boolean expression")
        return out

    def _e_Compare(self, fr, e):
        self.eval(fr, e.left)
        for c in e.comparators:
            self.eval(fr, c)
        t = None
        try:
            t = self.truth(fr, e) if len(e.ops) == 1 else None
        except Exception:
            t = None
        return Const(t) if isinstance(t, bool) else Other("mask")

    def _e_UnaryOp(self, fr, e):
        v = self.eval(fr, e.operand)
        if isinstance(e.op, ast.Not):
            return Other("bool")
        if isinstance(e.op, ast.Invert):
            return Other("mask")
        return v

    def _e_Starred(self, fr, e):
        return self.eval(fr, e.value)

    def _e_NamedExpr(self, fr, e):
        v = self.eval(fr, e.value)
        self.assign(fr, e.target, v, e.value)
        return v

    def _e_ListComp(self, fr, e):
        saved = dict(fr.env)
        for g in e.generators:
            self.assign(fr, g.target, self.iter_elem(fr, g.iter), None)
        v = self.eval(fr, e.elt)
        fr.env = saved
        return self.new_list(v)

    _e_GeneratorExp = _e_ListComp
    _e_SetComp = _e_ListComp

    def _body_of(self, fi):
        """The statements of a function with its loops over literal tables written out (for name, fn in (("a", f), ("b", g))):
        each iteration is interpreted with its own constants instead of their join."""
        cache = self.__dict__.setdefault("_unrolled", {})
        if fi.qualname not in cache:
            body = fi.node.body
            try:
                if any(isinstance(n, ast.For) and isinstance(n.iter, (ast.Tuple, ast.List, ast.Name)) for n in astq.walk_function(fi.node)):
                    body = astq.unroll_literal_loops(fi.node).body
            except Exception:
                body = fi.node.body
            cache[fi.qualname] = body
        return cache[fi.qualname]

    def _e_DictComp(self, fr, e):
        # {k: g(k) for k in ("a", "b", ...)}: one cell per literal key
        lit_keys = None
        if len(e.generators) == 1 and not e.generators[0].ifs:
            it0 = e.generators[0].iter
            if isinstance(it0, (ast.Tuple, ast.List)) and it0.elts and all(isinstance(x, ast.Constant) and isinstance(x.value, str) for x in it0.elts):
                lit_keys = [x.value for x in it0.elts]
            elif isinstance(it0, ast.Name):   # keys = ("a", "b"); {k: d[k] for k in keys}
                tv = self.eval(fr, it0)
                if isinstance(tv, Tup) and tv.elts and all(isinstance(x, Const) and isinstance(x.value, str) for x in tv.elts):
                    lit_keys = [x.value for x in tv.elts]
        if lit_keys:
            g = e.generators[0]
            saved = dict(fr.env)
            cells = {}
            ok = True
            for xv_ in lit_keys:
                self.assign(fr, g.target, Const(xv_), None)
                kv = self.eval(fr, e.key)
                if not (isinstance(kv, Const) and isinstance(kv.value, str)):
                    ok = False
                    break
                cells[kv.value] = self.eval(fr, e.value)
            fr.env = saved
            if ok:
                return self.new_dict(cells, None)
        # {f(k): g(k, v) for k, v in D.items()} over the concrete keys of a heap dict: one cell per key
        if len(e.generators) == 1 and not e.generators[0].ifs:
            g = e.generators[0]
            it = g.iter
            if isinstance(it, ast.Call) and isinstance(it.func, ast.Attribute) and it.func.attr in ("items", "keys") and not it.args:
                base = self.eval(fr, it.func.value)
                if isinstance(base, Ref) and isinstance(self.obj(base), HDict) and self.obj(base).default is None and self.obj(base).cells:
                    saved = dict(fr.env)
                    cells = {}
                    ok = True
                    for k in sorted(self.obj(base).cells):
                        cell = self.obj(base).cells.get(k)
                        if cell is None:
                            continue
                        val = Tup((Const(k), cell)) if it.func.attr == "items" else Const(k)
                        self.assign(fr, g.target, val, None)
                        kv = self.eval(fr, e.key)
                        if not (isinstance(kv, Const) and isinstance(kv.value, str)):
                            ok = False
                            break
                        cells[kv.value] = self.eval(fr, e.value)
                    fr.env = saved
                    if ok:
                        return self.new_dict(cells, None)
        saved = dict(fr.env)
        for g in e.generators:
            self.assign(fr, g.target, self.iter_elem(fr, g.iter), None)
        v = self.eval(fr, e.value)
        fr.env = saved
        return self.new_dict({}, v)

    def _e_Yield(self, fr, e):
        v = self.eval(fr, e.value) if e.value is not None else Const(None)
        fr.yields = join(fr.yields, v, "yield")
        return Const(None)

    def _e_Slice(self, fr, e):
        return Other("slice")

    def _e_BinOp(self, fr, e):
        return self.binop(fr, e.op, self.eval(fr, e.left), self.eval(fr, e.right), e)

    def as_mono(self, v: V) -> Optional[Mono]:
        if isinstance(v, Num):
            return v.mono
        if isinstance(v, Cfg):
            return Mono.sym(v.sym())
        if isinstance(v, Const) and isinstance(v.value, (int, float)) and not isinstance(v.value, bool):
            return ONE if v.value == 1 else Mono.sym(f"#{v.value}")
        return None

    def binop(self, fr: Frame, op: ast.operator, a: V, b: V, node: ast.AST) -> V:
        for x in (a, b):
            if isinstance(x, (Top, Mismatch)):
                return x
        ga, gb = isinstance(a, Geo), isinstance(b, Geo)
        ma, mb = self.as_mono(a), self.as_mono(b)
        w = self.where(fr, node)
        if isinstance(op, (ast.Mult, ast.Div)):
            if ga and mb is not None:
                if a.kind == "IMG":
                    return a  # intensity arithmetic does not move pixels
                return a.scaled(mb, inverse=isinstance(op, ast.Div))
            if gb and ma is not None and isinstance(op, ast.Mult):
                return b if b.kind == "IMG" else b.scaled(ma)
            if ma is not None and mb is not None:
                return Num(ma * mb if isinstance(op, ast.Mult) else ma / mb)
            if ga and isinstance(b, (Other, Shape)):
                return a if a.kind == "IMG" or isinstance(b, Other) and b.tag in ("mask", "bool") else self.top(f"{a!r} {type(op).__name__} non-symbolic value at {w}")
            if isinstance(a, Tup) and isinstance(b, Const):
                return a
            if isinstance(a, Ref) and isinstance(self.obj(a), HList) and isinstance(op, ast.Mult):
                return a  # [x] * n
            return Other("arith")
        if isinstance(op, (ast.Add, ast.Sub)):
            if ga and gb:
                if a.kind in ("PTS", "BOX") and b.kind == "BOX" and a.kind == "PTS":
                    self._corner_check(fr, node, b)
                    labels = lambda offs: frozenset(l for l, _ in offs)
                    if isinstance(op, ast.Sub):
                        if labels(a.offs) != labels(b.offs):
                            return Mismatch((a, b), f"points living in crop(s) {sorted(labels(a.offs))} minus the corner of a box computed in crop(s) {sorted(labels(b.offs))} at {w}")
                        # the corner is subtracted as raw numbers: the new origin is that box, expressed in the points' own units
                        return Geo("PTS", a.mono, a.offs | {(b.label, a.mono)})
                    ent = next((x for x in a.offs if x[0] == b.label), None)
                    if ent is not None and strip_aug(ent[1]) == strip_aug(b.mono) and labels(a.offs - {ent}) == labels(b.offs):
                        return Geo("PTS", a.mono, a.offs - {ent})
                    return Mismatch((a, b), f"adding the corner of box {b.label}@<{b.mono}> to points with origins {sorted((l, repr(m)) for l, m in a.offs)} at {w}")
                if a.kind == b.kind == "PTS":
                    if a.mono == b.mono and a.offs == b.offs:
                        return a
                    return Mismatch((a, b), f"combining points of different frames at {w}")
                if a.kind == "BOX" and b.kind == "BOX":
                    return a if (a.mono, a.offs) == (b.mono, b.offs) else Mismatch((a, b), f"boxes of different frames at {w}")
                return self.top(f"{a!r} +/- {b!r} at {w}")
            if ga:
                return a  # + offsets / constants: sub-pixel terms are not frame changes
            if gb:
                return b
            if ma is not None and mb is not None:
                return Num(ma) if ma == mb else Other("arith")
            if isinstance(a, Ref) and isinstance(b, Ref) and isinstance(self.obj(a), HList) and isinstance(self.obj(b), HList):
                return self.new_list(join(self.obj(a).elem, self.obj(b).elem, "list concatenation"))
            return Other("arith")
        if isinstance(op, ast.Pow):
            return Other("arith") if not ga else a
        if ga and isinstance(op, (ast.FloorDiv, ast.Mod)):
            return self.top(f"{a!r} // or % at {w}")
        return Other("arith")

    def _corner_check(self, fr: Frame, node: ast.AST, box: Geo) -> None:
        """The corner of a box that is subtracted / added back must be corner 0 (the top-left one)."""
        e = node.right if isinstance(node, ast.BinOp) else (node.value if isinstance(node, ast.AugAssign) else None)
        if e is None or fr.fi is None:
            return
        e = astq.deref(fr.fi.node, e)
        idx: List = []
        cur = e
        while isinstance(cur, (ast.Subscript, ast.Call, ast.Attribute)):
            if isinstance(cur, ast.Subscript):
                s = cur.slice
                for x in (s.elts if isinstance(s, ast.Tuple) else [s]):
                    if not isinstance(x, ast.Slice) and not isinstance(astq.const_value(x), str):
                        idx.append(astq.const_value(x))
                cur = cur.value
            elif isinstance(cur, ast.Call):
                cur = cur.func
            else:
                cur = cur.value
        ok = bool(idx) and all(i == 0 for i in idx)
        self.oblig("R-corner", ok, f"corner of {box.label} used in {fr.fi.qualname.split(':')[-1]}: {short(e, 50)}",
                   f"the box corner used as crop origin is selected by `{short(e, 60)}` (indices {idx}): not corner 0, the top-left one", self.where(fr, node))

    # -------------------------------------------------------------- attribute
    def _e_Attribute(self, fr, e):
        base = self.eval(fr, e.value)
        return self.getattr(fr, base, e.attr, e)

    def getattr(self, fr: Frame, base: V, attr: str, node: ast.AST) -> V:
        if isinstance(base, Ref):
            o = self.obj(base)
            if isinstance(o, HObj):
                if attr in o.attrs:
                    return o.attrs[attr]
                sp = self.leaves.obj_attr(self, base, o, attr)
                if sp is not None:
                    return sp
                ci = self.prog.classes.get(o.cls)
                if ci is not None:
                    m = self.prog.lookup_method(ci, attr)
                    if m is not None:
                        if any(norm(d) == "property" for d in m.node.decorator_list):
                            return self.call_function(m, [], {}, self_val=base)
                        return Func("bound", m.qualname, base)
                    for c in self.prog.mro(ci):
                        f = c.fields().get(attr)
                        if f is not None and f.value is not None:
                            fr2 = Frame(next(iter(c.methods.values()), None), {}, None)
                            return self.eval(fr2, f.value) if fr2.fi else Other("class attr")
                        for st in c.node.body:
                            if isinstance(st, ast.Assign) and norm(st.targets[0]) == attr:
                                fr2 = Frame(next(iter(c.methods.values()), None), {}, None)
                                return self.eval(fr2, st.value) if fr2.fi else Other("class attr")
                return Func("boundext", attr, base)
            if isinstance(o, HDict):
                if attr in o.cells:
                    return o.cells[attr]
                return Func("boundext", attr, base)
            if isinstance(o, HList):
                return Func("boundext", attr, base)
        if isinstance(base, Cfg):
            if attr in ("items", "keys", "values", "get", "copy"):
                return Func("boundext", attr, base)
            return Cfg(base.path + (attr,))
        if isinstance(base, (Geo, Cms)):
            if attr == "shape":
                return Shape(base)
            if attr in ("device", "dtype", "ndim", "is_nested", "requires_grad"):
                return Other(attr)
            if attr in ("T", "data", "values"):
                return base
            return Func("boundext", attr, base)
        if isinstance(base, Func) and base.kind == "class":
            ci = self.prog.classes.get(base.qual)
            if ci is not None:
                m = self.prog.lookup_method(ci, attr)
                if m is not None:
                    return Func("bound", m.qualname, base)
            return Func("external", f"{base.qual}.{attr}")
        if isinstance(base, Func) and base.kind == "external":
            return Func("external", f"{base.qual}.{attr}")
        if isinstance(base, (Num, Tup, Shape, Const, Other, Func)):
            return Func("boundext", attr, base)
        if isinstance(base, (Top, Mismatch)):
            return base
        return Other(attr)

    # -------------------------------------------------------------- subscript
    def _e_Subscript(self, fr, e):
        base = self.eval(fr, e.value)
        s = e.slice
        key = None if isinstance(s, ast.Slice) else self.eval(fr, s)
        if isinstance(base, Ref):
            o = self.obj(base)
            if isinstance(o, HDict):
                if isinstance(key, Const) and isinstance(key.value, str):
                    if key.value in o.cells:
                        return o.cells[key.value]
                    if o.default is not None:
                        return o.default
                    return self.top(f"key {key.value!r} not present in dict at {self.where(fr, e)}")
                out = o.default
                for v in o.cells.values():
                    out = join(out, v, "dict value")
                return out if out is not None else Other("empty")
            if isinstance(o, HList):
                if isinstance(s, ast.Slice):
                    return base
                return o.elem if o.elem is not None else Other("empty")
            if isinstance(o, HObj):
                return self.leaves.obj_item(self, base, o, key)
        if isinstance(base, Tup):
            if isinstance(key, Const) and isinstance(key.value, int) and -len(base.elts) <= key.value < len(base.elts):
                return base.elts[key.value]
            if isinstance(s, ast.Slice):
                return base
            return self.elem_of(base)
        if isinstance(base, Cfg):
            if isinstance(key, Const) and isinstance(key.value, str):
                return Cfg(base.path + (key.value,))
            if isinstance(key, Const) and isinstance(key.value, int):
                return Cfg(base.path + (f"[{key.value}]",))
            return Cfg(base.path + ("*",))
        if isinstance(base, Cms):
            if isinstance(key, Const) and isinstance(key.value, str):
                return Cms(base.mono, base.offs, base.model, key.value)
            return base
        if isinstance(base, Geo):
            return base  # indexing a tensor of coordinates / an image keeps the frame
        if isinstance(base, Shape):
            return Shape(base.of)  # a dimension of an image still identifies that image's frame
        if isinstance(base, (Num, Other, Top, Mismatch)):
            return base
        if isinstance(base, Const):
            return Other("elem")
        return Other("item")

    # ------------------------------------------------------------------- call
    def _e_Call(self, fr, e):
        # lazy iterators used as values (valid = islice(zip(a, b), n); for x, y in valid): a list of the element
        fnm = norm(e.func).split(".")[-1]
        if fnm in ("zip", "islice", "enumerate", "reversed", "iter") and (norm(e.func) in ("zip", "islice", "enumerate", "reversed", "iter", "itertools.islice")):
            for a in e.args[1:] if fnm == "islice" else []:
                self.eval(fr, a)
            return self.new_list(self.iter_elem(fr, e))
        if norm(e.func) == "getattr" and len(e.args) in (2, 3) and not e.keywords:
            nm = self.eval(fr, e.args[1])
            if isinstance(nm, Const) and isinstance(nm.value, str):
                return self.getattr(fr, self.eval(fr, e.args[0]), nm.value, e)
        if norm(e.func) == "bool" and len(e.args) == 1 and not e.keywords:
            t = self.truth(fr, e.args[0])
            if t is True or t is False:
                return Const(t)
        if norm(e.func) == "isinstance" and len(e.args) == 2:
            t = self.truth(fr, e)
            if t is True or t is False:
                return Const(t)
        f = self.eval(fr, e.func)
        args: List[V] = []
        for a in e.args:
            if isinstance(a, ast.Starred):
                v = self.eval(fr, a.value)
                if isinstance(v, Tup):
                    args += list(v.elts)
                else:
                    args.append(self.elem_of(v))
            else:
                args.append(self.eval(fr, a))
        kwargs: Dict[str, V] = {}
        for k in e.keywords:
            v = self.eval(fr, k.value)
            if k.arg is None:
                if isinstance(v, Ref) and isinstance(self.obj(v), HDict):
                    kwargs.update(self.obj(v).cells)
            else:
                kwargs[k.arg] = v
        return self.call_value(fr, f, args, kwargs, e)

    def call_value(self, fr: Frame, f: V, args: List[V], kwargs: Dict[str, V], node: ast.Call) -> V:
        if isinstance(f, (Top, Mismatch)):
            return f
        if isinstance(f, Func):
            if f.kind in ("function", "bound"):
                r = self.leaves.contract(self, fr, f, args, kwargs, node)
                if r is not None:
                    return r
                fi = self.prog.functions.get(f.qual)
                if fi is None:
                    return self.top(f"unknown function {f.qual}")
                self_val = f.self_val
                if self_val is not None and isinstance(self_val, Func):  # classmethod / static through the class
                    decs = [norm(d) for d in fi.node.decorator_list]
                    if "classmethod" in decs:
                        return self.call_function(fi, args, kwargs, self_val=self_val)
                    if "staticmethod" in decs:
                        return self.call_function(fi, args, kwargs, self_val=None)
                    return self.call_function(fi, args[1:], kwargs, self_val=args[0] if args else None)
                if fi.cls is not None and self_val is None and fi.pos_params[:1] == ["self"]:
                    return self.call_function(fi, args[1:], kwargs, self_val=args[0] if args else None)
                decs = [norm(d) for d in fi.node.decorator_list]
                if "staticmethod" in decs:
                    self_val = None
                return self.call_function(fi, args, kwargs, self_val=self_val)
            if f.kind == "class":
                r = self.leaves.contract(self, fr, f, args, kwargs, node)
                if r is not None:
                    return r
                ci = self.prog.classes.get(f.qual)
                return self.instantiate(ci, args, kwargs) if ci is not None else self.top(f"unknown class {f.qual}")
            if f.kind == "external":
                return self.leaves.external(self, fr, f.qual, args, kwargs, node)
            if f.kind == "boundext":
                return self.leaves.method(self, fr, f.self_val, f.qual, args, kwargs, node)
        if isinstance(f, Ref):
            o = self.obj(f)
            if isinstance(o, HObj):
                r = self.leaves.call_obj(self, fr, f, o, args, kwargs, node)
                if r is not None:
                    return r
                ci = self.prog.classes.get(o.cls)
                if ci is not None:
                    for name in ("forward", "__call__"):
                        m = self.prog.lookup_method(ci, name)
                        if m is not None:
                            return self.call_function(m, args, kwargs, self_val=f)
            return self.top(f"call of heap object {o!r}")
        if isinstance(f, Other):
            return self.leaves.call_other(self, fr, f, args, kwargs, node)
        return self.top(f"call of {f!r}")


def _o(g: Geo) -> str:
    return ("-" + ",".join(f"{l}@{m}" for l, m in sorted(g.offs, key=str))) if g.offs else ""


def selftest_geom_units():
    """Micro-program: scale, stride and crop origin cancel symbolically; a forgotten factor does not."""
    import os
    import pathlib
    import shutil
    import tempfile
    import textwrap

    src = textwrap.dedent(
        """
        def decode(peaks, box, stride, scale, eff):
            p = peaks * stride
            if scale != 1.0:
                p = p / scale
            p = p / eff
            b = box / scale / eff
            return p + b[0][0]

        def forgot(peaks, box, stride, scale, eff):
            p = peaks * stride / eff
            b = box / scale / eff
            return p + b[0][0]

        def branches(pts, flag, k):
            if flag:
                pts = pts * k
            else:
                pts = pts * k
            out = []
            for i in range(3):
                out.append(pts)
            return out
        """
    )
    d = tempfile.mkdtemp()
    try:
        os.makedirs(os.path.join(d, "sleap_nn"))
        pathlib.Path(d, "sleap_nn", "m.py").write_text(src)
        prog = Program(d)
        I = Interp(prog)
        st, sc, ef = Mono.sym("stride"), Mono.sym("scale"), Mono.sym("eff")
        m = sc * ef
        peaks = Geo("PTS", m / st, frozenset({("b", m / st)}))
        box = Geo("BOX", m, frozenset(), "b")
        r = I.call_function(prog.func("sleap_nn.m:decode"), [peaks, box, Num(st), Num(sc), Num(ef)], {})
        assert isinstance(r, Geo) and r.mono.is_one() and not r.offs, r
        r2 = I.call_function(prog.func("sleap_nn.m:forgot"), [peaks, box, Num(st), Num(sc), Num(ef)], {})
        assert isinstance(r2, Mismatch), r2
        r3 = I.call_function(prog.func("sleap_nn.m:branches"), [Geo("PTS"), Other("flag"), Num(sc)], {})
        e = I.elem_of(r3)
        assert isinstance(e, Geo) and e.mono == sc, e
    finally:
        shutil.rmtree(d)
