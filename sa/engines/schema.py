"""E5 — the attrs configuration schema read from the AST (no import), and path conformance.

The schema tree is rooted at TrainingJobConfig.  A field whose annotation names another
attrs config class is an inner node; `dict`, `Any`, `list`, `List[...]` are *open* (anything
below is accepted); scalars are leaves.
"""

from __future__ import annotations

import ast
from dataclasses import dataclass, field
from typing import Dict, List, Optional, Tuple

from ..core.program import AnalysisError, ClassInfo, Program, norm

CONFIG_MODULES = [
    "sleap_nn.config.training_job_config",
    "sleap_nn.config.data_config",
    "sleap_nn.config.model_config",
    "sleap_nn.config.trainer_config",
]
ROOT = "TrainingJobConfig"
_OPEN = {"dict", "Dict", "Any", "list", "List", "DictConfig", "OmegaConf"}
_SCALAR = {"int", "float", "str", "bool", "Text", "Tuple", "tuple"}


@dataclass
class Field:
    name: str
    cls: str
    ann: Optional[ast.AST]
    node: ast.AnnAssign
    types: List[str] = field(default_factory=list)  # config classes this field may hold
    open: bool = False
    optional: bool = False
    default: Optional[ast.AST] = None
    validator: Optional[ast.AST] = None
    factory: Optional[ast.AST] = None


class Schema:
    def __init__(self, prog: Program):
        self.prog = prog
        self.classes: Dict[str, Dict[str, Field]] = {}
        self.class_info: Dict[str, ClassInfo] = {}
        for m in CONFIG_MODULES:
            mi = prog.module(m)
            for ci in mi.classes.values():
                if any("define" in d or "attrs" in d or "attr.s" in d for d in ci.decorators()):
                    self.class_info[ci.name] = ci
        for name, ci in self.class_info.items():
            self.classes[name] = {}
            for fname, st in ci.fields().items():
                f = Field(fname, name, st.annotation, st)
                self._type_of(st.annotation, f)
                self._default_of(self._field_call(ci, st.value), f)
                self.classes[name][fname] = f
            # attrs' decorator form:  @<field>.validator  def _check(self, attribute, value): ...
            for st in ci.node.body:
                if isinstance(st, ast.FunctionDef):
                    for d in st.decorator_list:
                        if isinstance(d, ast.Attribute) and d.attr == "validator" and isinstance(d.value, ast.Name) and d.value.id in self.classes[name] \
                                and self.classes[name][d.value.id].validator is None:
                            self.classes[name][d.value.id].validator = st
        if ROOT not in self.classes:
            raise AnalysisError(f"schema root {ROOT} vanished")

    def _field_call(self, ci: ClassInfo, value: Optional[ast.AST]) -> Optional[ast.AST]:
        """`x: T = helper(args)` where the module-level helper only returns a field(...) call: that field(...) call with the
        helper's parameters replaced by the arguments (defaults included)."""
        if not (isinstance(value, ast.Call) and isinstance(value.func, ast.Name)):
            return value
        fn = ci.module.functions.get(value.func.id)
        if fn is None:
            return value
        body = [b for b in fn.node.body if not (isinstance(b, ast.Expr) and isinstance(b.value, ast.Constant))]
        if not (len(body) == 1 and isinstance(body[0], ast.Return) and isinstance(body[0].value, ast.Call)
                and norm(body[0].value.func).split(".")[-1] in ("field", "ib", "attrib")):
            return value
        import copy

        a = fn.node.args
        params = [x.arg for x in a.posonlyargs + a.args]
        binding = {}
        for p_, d_ in zip(params[len(params) - len(a.defaults):], a.defaults):
            binding[p_] = d_
        for p_, v_ in zip(params, value.args):
            binding[p_] = v_
        for k_ in value.keywords:
            if k_.arg:
                binding[k_.arg] = k_.value

        class Sub(ast.NodeTransformer):
            def visit_Name(self, node):
                return copy.deepcopy(binding[node.id]) if node.id in binding and isinstance(node.ctx, ast.Load) else node

        return Sub().visit(copy.deepcopy(body[0].value))

    def _type_of(self, ann: Optional[ast.AST], f: Field) -> None:
        if ann is None:
            f.open = True
            return
        if isinstance(ann, ast.Name):
            if ann.id in self.class_info:
                f.types.append(ann.id)
            elif ann.id in _OPEN:
                f.open = True
            return
        if isinstance(ann, ast.Constant) and isinstance(ann.value, str):
            if ann.value in self.class_info:
                f.types.append(ann.value)
            return
        if isinstance(ann, ast.Subscript):
            head = norm(ann.value).split(".")[-1]
            inner = ann.slice.elts if isinstance(ann.slice, ast.Tuple) else [ann.slice]
            if head == "Optional":
                f.optional = True
                for e in inner:
                    self._type_of(e, f)
            elif head == "Union":
                for e in inner:
                    if isinstance(e, ast.Constant) and e.value is None:
                        f.optional = True
                    else:
                        self._type_of(e, f)
            elif head in _OPEN:
                f.open = True
            return
        if isinstance(ann, ast.Attribute):
            if ann.attr in self.class_info:
                f.types.append(ann.attr)
            elif ann.attr in _OPEN:
                f.open = True

    def _default_of(self, value: Optional[ast.AST], f: Field) -> None:
        if value is None:
            return
        if isinstance(value, ast.Call) and norm(value.func).split(".")[-1] in ("field", "ib", "attrib"):
            for k in value.keywords:
                if k.arg == "default":
                    if isinstance(k.value, ast.Call) and norm(k.value.func).split(".")[-1] == "Factory" and k.value.args:
                        f.factory = k.value.args[0]   # field(default=Factory(C)) is field(factory=C)
                    else:
                        f.default = k.value
                elif k.arg == "validator":
                    f.validator = k.value
                elif k.arg == "factory":
                    f.factory = k.value
        elif isinstance(value, ast.Call) and norm(value.func).split(".")[-1] == "Factory" and value.args:
            f.factory = value.args[0]   # x: T = Factory(C): attrs builds a new C() per instance
        else:
            f.default = value

    # ------------------------------------------------------------------
    def resolve(self, path: List[str], root: str = ROOT) -> Tuple[str, str]:
        """('ok'|'open'|'missing', explanation).  '*' is a dynamic key: every alternative must resolve."""
        return self._resolve([root], path, [])

    def _resolve(self, classes: List[str], path: List[str], trail: List[str]) -> Tuple[str, str]:
        """Alternatives (several classes, a '*' segment) are a disjunction: the path is declared
        if SOME alternative declares it - which alternative is live is a runtime value; a path no
        alternative declares (a typo, a removed field) is 'missing'."""
        if not path:
            return "ok", ""
        seg, rest = path[0], path[1:]
        results = []
        for c in classes:
            fields = self.classes.get(c)
            if fields is None:
                results.append(("missing", f"{c} is not a config class"))
                continue
            if seg == "*":
                subs = [f for f in fields.values()]
                if not subs:
                    results.append(("missing", f"{c} has no fields"))
                for f in subs:
                    results.append(self._step(f, rest, trail + [f.name]))
            elif seg in fields:
                results.append(self._step(fields[seg], rest, trail + [seg]))
            else:
                results.append(("missing", f"{'.'.join(trail) or c}: class {c} declares no field `{seg}`"))
        good = [r for r in results if r[0] != "missing"]
        if not good:
            return results[0] if results else ("missing", "no alternative")
        if any(r[0] == "ok" for r in good):
            return "ok", ""
        return "open", ""

    def _step(self, f: Field, rest: List[str], trail: List[str]) -> Tuple[str, str]:
        if not rest:
            return "ok", ""
        if f.open:
            return "open", ""
        if f.types:
            return self._resolve(f.types, rest, trail)
        return "missing", f"{'.'.join(trail)} is a scalar field ({norm(f.ann) if f.ann else '?'}); it has no key `{rest[0]}`"

    def fields_of(self, cls: str) -> Dict[str, Field]:
        if cls not in self.classes:
            raise AnalysisError(f"config class vanished: {cls}")
        return self.classes[cls]

    def stats(self) -> Dict[str, int]:
        return {"config_classes": len(self.classes), "config_fields": sum(len(v) for v in self.classes.values())}


def path_of(node: ast.AST, roots: Dict[str, List[str]]) -> Optional[Tuple[str, List[str], bool]]:
    """For an Attribute/Subscript chain rooted at one of `roots` (keys are normalised root
    expressions like 'self.config'), return (root, path segments, dynamic?) of the OUTERMOST chain.

    Segments come from attribute names and constant-string subscripts; any other subscript
    (f-string, variable) becomes '*'.  Integer subscripts and slices end the path.
    """
    segs: List[str] = []
    cur = node
    while True:
        txt = norm(cur)
        if txt in roots:
            segs.reverse()
            return txt, roots[txt] + segs, "*" in segs
        if isinstance(cur, ast.Attribute):
            segs.append(cur.attr)
            cur = cur.value
        elif isinstance(cur, ast.Subscript):
            s = cur.slice
            if isinstance(s, ast.Constant) and isinstance(s.value, str):
                segs.append(s.value)
            elif isinstance(s, ast.Constant) and isinstance(s.value, int):
                segs = []  # indexing into a list/tuple value: the path ended below
            elif isinstance(s, ast.Slice):
                segs = []
            else:
                segs.append("*")
            cur = cur.value
        elif isinstance(cur, ast.Call):
            # method call on a config node (.items(), .keys(), .get(...)): path ends below the call
            segs = []
            if isinstance(cur.func, ast.Attribute):
                cur = cur.func.value
            else:
                return None
        else:
            return None


_CONFIG_METHODS = {"items", "keys", "values", "get", "copy", "pop", "update", "to_container"}


def selftest_schema_resolution():
    import textwrap

    # micro schema through the real Program of the current tree
    from ..core.program import Program

    s = Schema(Program())
    assert s.resolve(["trainer_config", "wandb", "api_key"])[0] == "ok"
    assert s.resolve(["trainer_config", "wandb", "no_such_key"])[0] == "missing"
    assert s.resolve(["data_config", "skeletons", "anything", "below"])[0] == "open"
    assert s.resolve(["model_config", "backbone_config", "*", "max_stride"])[0] == "ok"
    assert s.resolve(["model_config", "backbone_config", "*", "nope"])[0] == "missing"
    assert s.resolve(["model_config", "head_configs", "*", "*", "loss_weight"])[0] == "ok"
    assert s.resolve(["model_config", "head_configs", "*", "*", "loss_weigth"])[0] == "missing"
    assert s.resolve(["trainer_config", "seed", "x"])[0] == "missing"
