"""E2 (part 1) — abstract values of the coordinate-frame (units of measure) interpretation.

Mono : monomial  prod sym^exp  over symbolic positive scalars (abelian group).
Geo  : an image / points / box in a frame:  scale `mono` w.r.t. the image read from disk and a
       set of subtracted crop origins `offs` = {(box label, mono at which it was subtracted)}.
Heap objects (dict / list / object) are referenced through Ref and live in the interpreter heap.
"""

from __future__ import annotations

from dataclasses import dataclass, field
from typing import Dict, FrozenSet, List, Optional, Tuple


class Mono:
    __slots__ = ("e",)

    def __init__(self, e: Optional[Dict[str, int]] = None):
        self.e = {k: v for k, v in (e or {}).items() if v != 0}

    @staticmethod
    def sym(name: str) -> "Mono":
        return Mono({name: 1})

    def __mul__(self, o: "Mono") -> "Mono":
        d = dict(self.e)
        for k, v in o.e.items():
            d[k] = d.get(k, 0) + v
        return Mono(d)

    def __truediv__(self, o: "Mono") -> "Mono":
        d = dict(self.e)
        for k, v in o.e.items():
            d[k] = d.get(k, 0) - v
        return Mono(d)

    def __eq__(self, o) -> bool:
        return isinstance(o, Mono) and self.e == o.e

    def __hash__(self) -> int:
        return hash(tuple(sorted(self.e.items())))

    def is_one(self) -> bool:
        return not self.e

    def subst_one(self, sym: str) -> "Mono":
        return Mono({k: v for k, v in self.e.items() if k != sym})

    def rename(self, f) -> "Mono":
        d: Dict[str, int] = {}
        for k, v in self.e.items():
            k2 = f(k)
            d[k2] = d.get(k2, 0) + v
        return Mono(d)

    def __repr__(self) -> str:
        if not self.e:
            return "1"
        num = [f"{k}" + (f"^{v}" if v != 1 else "") for k, v in sorted(self.e.items()) if v > 0]
        den = [f"{k}" + (f"^{-v}" if v != -1 else "") for k, v in sorted(self.e.items()) if v < 0]
        s = "*".join(num) or "1"
        if den:
            s += "/" + "/".join(den)
        return s


ONE = Mono()


def strip_aug(m: "Mono") -> "Mono":
    """A random augmentation transform moves content but keeps pixel units: frames are compared modulo it
    wherever only the UNIT matters (cutting a crop, shifting by a box corner)."""
    return Mono({k: v for k, v in m.e.items() if not k.startswith("aug@")})


def strip_offs(offs):
    return frozenset((l, strip_aug(m)) for l, m in offs)


class V:
    """Base of abstract values."""


@dataclass(frozen=True)
class Top(V):
    why: str = ""

    def __repr__(self):
        return f"TOP({self.why})"


@dataclass(frozen=True)
class Other(V):
    """A value without geometric meaning (ints, strings, models, masks, scores)."""
    tag: str = ""
    fill: bool = False  # neutral filler (zeros / NaN tensors): joins with anything

    def __repr__(self):
        return f"other:{self.tag}" if self.tag else "other"


@dataclass(frozen=True)
class Const(V):
    value: object

    def __repr__(self):
        return f"const({self.value!r})"


@dataclass(frozen=True)
class Num(V):
    mono: Mono

    def __repr__(self):
        return f"num<{self.mono}>"


@dataclass(frozen=True)
class Cfg(V):
    """A configuration node addressed by a path; used as a scalar it is the symbol of that path."""
    path: Tuple[str, ...]

    def sym(self) -> str:
        return ".".join(self.path)

    def __repr__(self):
        return f"cfg:{self.sym()}"


@dataclass(frozen=True)
class Geo(V):
    kind: str  # IMG | PTS | BOX
    mono: Mono = ONE
    offs: FrozenSet[Tuple[str, Mono]] = frozenset()
    label: str = ""  # for BOX: identity of the box

    def scaled(self, m: Mono, inverse: bool = False) -> "Geo":
        f = (lambda x: x / m) if inverse else (lambda x: x * m)
        return Geo(self.kind, f(self.mono), frozenset((l, f(mm)) for l, mm in self.offs), self.label)

    def __repr__(self):
        o = ("-" + ",".join(f"{l}@{m}" for l, m in sorted(self.offs, key=str))) if self.offs else ""
        lab = f"#{self.label}" if self.label else ""
        return f"{self.kind}{lab}<{self.mono}>{o}"


@dataclass(frozen=True)
class Shape(V):
    of: V

    def __repr__(self):
        return f"shape({self.of})"


@dataclass(frozen=True)
class Cms(V):
    """Network output on a grid; `mono` is the frame of the image the network saw."""
    mono: Mono
    offs: FrozenSet[Tuple[str, Mono]]
    model: str
    head: str = ""

    def __repr__(self):
        return f"cms[{self.model}:{self.head}]<{self.mono}>"


@dataclass(frozen=True)
class Tup(V):
    elts: Tuple[V, ...]

    def __repr__(self):
        return "(" + ", ".join(map(repr, self.elts)) + ")"


@dataclass(frozen=True)
class Ref(V):
    id: int

    def __repr__(self):
        return f"ref{self.id}"


@dataclass(frozen=True)
class Func(V):
    kind: str  # 'function' | 'class' | 'bound' | 'external'
    qual: str
    self_val: Optional[V] = None

    def __repr__(self):
        return f"{self.kind}:{self.qual}"


@dataclass(frozen=True)
class Mismatch(V):
    alts: Tuple[V, ...]
    why: str = ""

    def __repr__(self):
        return f"MISMATCH({self.why}: " + " | ".join(map(repr, self.alts)) + ")"


# heap objects -----------------------------------------------------------------
@dataclass
class HDict:
    cells: Dict[str, V] = field(default_factory=dict)
    default: Optional[V] = None  # value of unknown keys

    def copy(self) -> "HDict":
        return HDict(dict(self.cells), self.default)


@dataclass
class HList:
    elem: Optional[V] = None

    def copy(self) -> "HList":
        return HList(self.elem)


@dataclass
class HObj:
    cls: str  # qualified class name or a builtin tag
    attrs: Dict[str, V] = field(default_factory=dict)

    def copy(self) -> "HObj":
        return HObj(self.cls, dict(self.attrs))


def join(a: Optional[V], b: Optional[V], why: str = "join") -> Optional[V]:
    if a is None:
        return b
    if b is None:
        return a
    if a == b:
        return a
    if isinstance(a, Other) and a.fill:
        return b
    if isinstance(b, Other) and b.fill:
        return a
    if isinstance(a, Top):
        return a
    if isinstance(b, Top):
        return b
    if isinstance(a, Mismatch) or isinstance(b, Mismatch):
        alts = (a.alts if isinstance(a, Mismatch) else (a,)) + (b.alts if isinstance(b, Mismatch) else (b,))
        uniq = []
        for x in alts:
            if x not in uniq:
                uniq.append(x)
        return Mismatch(tuple(uniq), why)
    if isinstance(a, Geo) and isinstance(b, Geo) and a.kind == b.kind and a.label == b.label:
        # an optional augmentation (applied on one path only): the identity is one of its samples
        r = a.mono / b.mono
        if r.e and all(k.startswith("aug@") for k in r.e) and strip_offs(a.offs) == strip_offs(b.offs):
            if all(v > 0 for v in r.e.values()):
                return a
            if all(v < 0 for v in r.e.values()):
                return b
    if isinstance(a, (Geo, Num, Cms)) or isinstance(b, (Geo, Num, Cms)):
        if isinstance(a, (Other, Const)) and not isinstance(b, (Other, Const)):
            # a geometric value joined with a non-geometric one (e.g. None / NaN placeholder)
            return b
        if isinstance(b, (Other, Const)) and not isinstance(a, (Other, Const)):
            return a
        return Mismatch((a, b), why)
    if isinstance(a, Tup) and isinstance(b, Tup) and len(a.elts) == len(b.elts):
        return Tup(tuple(join(x, y, why) for x, y in zip(a.elts, b.elts)))
    if isinstance(a, Const) and isinstance(b, Const):
        return Other("const")
    if isinstance(a, Shape) and isinstance(b, Shape):
        return Shape(join(a.of, b.of, why))
    if isinstance(a, Ref) and isinstance(b, Ref):
        return a  # different heap objects: keep the first (contents are joined by the heap join)
    if isinstance(a, Ref) and isinstance(b, (Const, Other)):
        return a  # optional object
    if isinstance(b, Ref) and isinstance(a, (Const, Other)):
        return b
    if isinstance(a, (Other, Const, Cfg, Func)) and isinstance(b, (Other, Const, Cfg, Func)):
        return Other("mixed")
    return a
