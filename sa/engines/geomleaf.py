"""E2 (part 3) — transfer functions of external leaves and the documented contracts.

Every contract states its premise; premises that are not visible to the interpreter are checked
structurally by the property modules (C02-pad, C04-size, C03-lines, C18-npz ...).
"""

from __future__ import annotations

import ast
from typing import Dict, List, Optional

from ..core import astq
from ..core.program import norm, short
from .geomval import (strip_aug, strip_offs, ONE, Cfg, Cms, Const, Func, Geo, HDict, HList, HObj, Mismatch, Mono, Num, Other, Ref, Shape, Top, Tup, V, join)

PASS_EXT = {
    "torch.unsqueeze", "torch.squeeze", "torch.from_numpy", "torch.as_tensor", "torch.round", "torch.nan_to_num", "torch.clone", "torch.tensor",
    "torch.Tensor", "torch.reshape", "torch.permute", "torch.transpose", "torch.flatten", "torch.detach", "torch.abs", "torch.clip", "torch.clamp",
    "numpy.transpose", "numpy.expand_dims", "numpy.array", "numpy.asarray", "numpy.squeeze", "numpy.round", "numpy.nan_to_num", "numpy.copy",
    "torchvision.transforms.v2.functional.rgb_to_grayscale", "torchvision.transforms.functional.rgb_to_grayscale", "copy.deepcopy", "copy.copy",
    "PIL.Image.fromarray", "builtins.float", "builtins.int", "builtins.abs",
}
JOIN_EXT = {"torch.cat", "torch.concatenate", "torch.concat", "torch.stack", "torch.nested.nested_tensor", "numpy.stack", "numpy.concatenate", "numpy.array_list",
            "torch.vstack", "torch.hstack", "builtins.list", "builtins.tuple", "builtins.sorted", "builtins.reversed", "builtins.set"}
FILL_EXT = {"torch.zeros", "torch.full", "torch.ones", "torch.empty", "torch.zeros_like", "torch.full_like", "torch.ones_like", "numpy.zeros", "numpy.full", "numpy.ones"}
GEN_SINKS = {
    "sleap_nn.data.confidence_maps:generate_confmaps": ("instance", "img_hw"),
    "sleap_nn.data.confidence_maps:generate_multiconfmaps": ("instances", "img_hw"),
    "sleap_nn.data.edge_maps:generate_pafs": ("instances", "img_hw"),
}


def install(I) -> None:
    I.leaves = Leaves(I)


def frame_of(v: V):
    if isinstance(v, Geo):
        return (v.mono, v.offs)
    if isinstance(v, Cms):
        return (v.mono, v.offs)
    return None


class Leaves:
    def __init__(self, I):
        self.storage: Dict[str, V] = {}
        self.target_calls: List[Dict] = []
        self.model_calls: List[Dict] = []
        self.model_stride = lambda tag, head: Mono.sym(f"stride:{tag}:{head}")
        self.rout_rule = "R-out"
        self.box_counter: Dict[str, int] = {}

    # ------------------------------------------------------------- helpers
    def _caller(self, fr) -> str:
        return fr.fi.qualname.split(":")[-1] if fr.fi else "?"

    def _box_label(self, fr, node) -> str:
        sites = sorted({n.lineno for n in astq.walk_function(fr.fi.node) if isinstance(n, ast.Call) and norm(n.func).endswith("make_centered_bboxes")}) if fr.fi else []
        k = sites.index(node.lineno) if node.lineno in sites else 0
        return f"box@{self._caller(fr)}:{k}"

    def _crop(self, I, fr, img: V, boxes: V, node, what: str) -> V:
        if isinstance(img, (Top, Mismatch)):
            return img
        if isinstance(boxes, (Top, Mismatch)):
            return boxes
        if not (isinstance(img, Geo) and img.kind == "IMG" and isinstance(boxes, Geo) and boxes.kind == "BOX"):
            return I.top(f"{what}: image {img!r} / boxes {boxes!r} at {I.where(fr, node)}")
        labels = lambda offs: frozenset(l for l, _ in offs)
        if labels(img.offs) != labels(boxes.offs):
            I.oblig("R-reg", False, f"{what} in {self._caller(fr)}: image {img!r} cropped with boxes {boxes!r}",
                    f"the image lives in crop(s) {sorted(labels(img.offs))} but the boxes were computed in crop(s) {sorted(labels(boxes.offs))}", I.where(fr, node))
            return Mismatch((img, boxes), f"{what} with boxes of another crop at {I.where(fr, node)}")
        ok = strip_aug(img.mono) == strip_aug(boxes.mono) and strip_offs(img.offs) == strip_offs(boxes.offs)
        I.oblig("R-centre", ok, f"{what} in {self._caller(fr)}: image {img!r} cropped with boxes {boxes!r}",
                f"the image is in frame <{img.mono}> but the crop boxes were computed from coordinates in frame <{boxes.mono}>: the crop is not cut around the "
                "intended centre", I.where(fr, node), {"image": repr(img), "boxes": repr(boxes)})
        # kornia reads the box numbers in the image's own pixel grid: the crop origin is that box, in the image's units
        return Geo("IMG", img.mono, img.offs | {(boxes.label, img.mono)})

    # ----------------------------------------------------------- contracts
    def contract(self, I, fr, f: Func, args: List[V], kwargs: Dict[str, V], node: ast.Call) -> Optional[V]:
        q = f.qual
        fi = I.prog.functions.get(q)
        bound: Dict[str, V] = {}
        if fi is not None:
            params = fi.pos_params
            if params[:1] in (["self"], ["cls"]) and (f.self_val is not None):
                params = params[1:]
            for p, v in zip(params, args):
                bound[p] = v
            bound.update(kwargs)
        w = I.where(fr, node)
        if q == "sleap_nn.data.resizing:apply_sizematcher":
            img = bound.get("image")
            if not isinstance(img, Geo):
                return Tup((img if img is not None else I.top("sizematcher image"), I.top("eff_scale of a non-image")))
            e = Mono.sym(f"eff@{self._caller(fr)}")
            return Tup((img.scaled(e), Num(e)))
        if q == "sleap_nn.data.instance_cropping:make_centered_bboxes":
            c = bound.get("centroids")
            if isinstance(c, Geo):
                return Geo("BOX", c.mono, c.offs, self._box_label(fr, node))
            return c if isinstance(c, (Top, Mismatch)) else I.top(f"make_centered_bboxes of {c!r} at {w}")
        if q == "sleap_nn.inference.peak_finding:crop_bboxes":
            return self._crop(I, fr, bound.get("images"), bound.get("bboxes"), node, "crop_bboxes")
        if q in ("sleap_nn.inference.peak_finding:find_global_peaks", "sleap_nn.inference.peak_finding:find_local_peaks"):
            c = bound.get("cms")
            n = 2 if q.endswith("global_peaks") else 4
            if isinstance(c, Cms):
                p = Geo("PTS", c.mono, c.offs).scaled(self.model_stride(c.model, c.head), inverse=True)
                return Tup((p,) + tuple(Other(t) for t in ("peak_vals", "sample_inds", "channel_inds")[: n - 1]))
            return Tup((I.top(f"peak finding on {c!r} at {w}"),) + (Other("vals"),) * (n - 1))
        if q in ("sleap_nn.data.instance_centroids:generate_centroids", "sleap_nn.data.instance_centroids:find_points_bbox_midpoint"):
            p = bound.get("points")
            return p if p is not None else I.top("centroids of nothing")
        if q == "sleap_nn.data.utils:make_grid_vectors":
            h = bound.get("image_height")
            if isinstance(h, Shape):
                return Tup((Shape(h.of), Shape(h.of)))
            return Tup((Other("xv"), Other("yv")))
        if q in ("sleap_nn.data.confidence_maps:make_confmaps", "sleap_nn.data.confidence_maps:make_multi_confmaps", "sleap_nn.data.edge_maps:make_multi_pafs"):
            xv = bound.get("xv")
            pts = bound.get("points_batch", bound.get("edge_sources"))
            if isinstance(xv, Shape):
                img = xv.of
                rec = {"generator": q.split(":")[-1], "caller": fr.fi.qualname if fr.fi else "?", "points": repr(pts), "image": repr(img),
                       "sigma": repr(bound.get("sigma")), "output_stride": "", "where": w}
                self.target_calls.append(rec)
                if isinstance(pts, Geo) and isinstance(img, Geo):
                    ok = frame_of(pts) == frame_of(img)
                    I.oblig("R-reg", ok, f"{q.split(':')[-1]} in {self._caller(fr)}: points {pts!r} on the grid of image {img!r}",
                            f"targets are drawn from keypoints in frame {pts!r} on the grid of an image in frame {img!r}", w)
                elif isinstance(pts, Mismatch) or isinstance(img, Mismatch):
                    I.oblig("R-reg", False, f"{q.split(':')[-1]} in {self._caller(fr)}", f"keypoints/image without a single frame: {pts!r} / {img!r}", w)
                else:
                    I.oblig("R-reg", None, f"{q.split(':')[-1]} in {self._caller(fr)}", f"frames unknown: {pts!r} / {img!r}", w)
                return Other("targets")
            return Other("targets")
        if q == "sleap_nn.data.edge_maps:get_edge_points":
            p0 = bound.get("instances")
            return Tup((p0, p0)) if p0 is not None else None
        if q in GEN_SINKS:
            pn, hn = GEN_SINKS[q]
            pts, hw = bound.get(pn), bound.get(hn)
            img = hw.of if isinstance(hw, Shape) else None
            if isinstance(hw, Tup) and hw.elts and all(isinstance(x_, Shape) for x_ in hw.elts) and len({repr(x_.of) for x_ in hw.elts}) == 1:
                img = hw.elts[0].of       # (h, w) unpacked from one image's shape and put together again
            if isinstance(hw, Mismatch):
                # the size of an image that is in different frames on different paths: still no single frame
                alts = tuple(a.of if isinstance(a, Shape) else a for a in hw.alts)
                img = Mismatch(alts, hw.why) if all(isinstance(a, Geo) for a in alts) else None
            rec = {"generator": q.split(":")[-1], "caller": fr.fi.qualname if fr.fi else "?", "points": repr(pts), "image": repr(img),
                   "sigma": repr(bound.get("sigma")), "output_stride": repr(bound.get("output_stride")), "where": w}
            self.target_calls.append(rec)
            if isinstance(pts, (Top,)) or img is None or isinstance(img, Top) or not isinstance(pts, (Geo, Mismatch)) or not isinstance(img, (Geo, Mismatch)):
                I.oblig("R-reg", None, f"{q.split(':')[-1]} in {self._caller(fr)}", f"could not determine the frames of points ({pts!r}) / image ({hw!r})", w)
            elif isinstance(pts, Mismatch) or isinstance(img, Mismatch):
                I.oblig("R-reg", False, f"{q.split(':')[-1]} in {self._caller(fr)}: points {pts!r}, image {img!r}",
                        f"the keypoints or the image reaching {q.split(':')[-1]} have no single frame: {pts!r} / {img!r}", w)
            else:
                ok = frame_of(pts) == frame_of(img)
                I.oblig("R-reg", ok, f"{q.split(':')[-1]} in {self._caller(fr)}: points {pts!r} on image {img!r}",
                        f"targets are drawn from keypoints in frame {pts!r} on the grid of an image in frame {img!r}: image and keypoints are no longer registered",
                        w, {"points": repr(pts), "image": repr(img)})
            return Other("targets")
        if q == "sleap_nn.inference.paf_grouping:PAFScorer.predict":
            pafs, peaks = bound.get("pafs"), bound.get("peaks")
            pe = I.elem_of(peaks) if peaks is not None else None
            so = I.obj(f.self_val) if isinstance(f.self_val, Ref) else None
            ps = so.attrs.get("pafs_stride") if isinstance(so, HObj) else None
            pm = I.as_mono(ps) if ps is not None else None
            if isinstance(pafs, Cms) and isinstance(pe, Geo) and pm is not None:
                grid = pafs.mono / self.model_stride(pafs.model, pafs.head)
                idx = pe.mono / pm
                I.oblig("C03-lines", grid == idx, f"PAF lines sampled at peaks/<{pm}> = <{idx}> on a PAF grid <{grid}>",
                        f"the grouping reads the PAFs at peak coordinates divided by <{pm}> (frame <{idx}>) but the PAF tensor lives on the grid <{grid}>: "
                        "line integrals are taken at the wrong cells", w, {"peaks": repr(pe), "pafs": repr(pafs), "pafs_stride": repr(ps)})
            else:
                I.oblig("C03-lines", None, "PAFScorer.predict", f"cannot relate pafs {pafs!r}, peaks {pe!r}, pafs_stride {ps!r}", w)
            return Tup((peaks if peaks is not None else I.top("peaks"), Other("peak_scores"), Other("instance_scores"), Other("edge_inds"), Other("edge_peak_inds"), Other("line_scores")))
        if q.endswith("Predictor._convert_tensors_to_numpy"):
            return bound.get("output")  # contract: converts tensor types only (premise checked by C02-conv)
        if q in ("sleap_nn.training.utils:get_dist_rank", "sleap_nn.training.utils:is_distributed_initialized"):
            return Const(None) if q.endswith("rank") else Const(False)
        if q == "sleap_nn.data.providers:get_max_instances":
            return Other("max_instances")
        return None

    # ------------------------------------------------------------ externals
    def external(self, I, fr, q: str, args: List[V], kwargs: Dict[str, V], node: ast.Call) -> V:
        w = I.where(fr, node)
        a0 = args[0] if args else None
        if q in ("torchvision.transforms.v2.functional.resize", "torchvision.transforms.functional.resize"):
            img = a0 if a0 is not None else kwargs.get("img")
            if not isinstance(img, Geo):
                return img if isinstance(img, (Top, Mismatch)) else I.top(f"resize of {img!r} at {w}")
            size = astq.call_arg(node, 1, "size")
            size = astq.deref(fr.fi.node, size) if fr.fi else size
            ks = []
            if isinstance(size, (ast.List, ast.Tuple)) and len(size.elts) == 2:
                for el in size.elts:
                    x = el
                    while isinstance(x, ast.Call) and norm(x.func) in ("int", "round", "math.floor", "math.ceil") and x.args:
                        x = x.args[0]
                    if isinstance(x, ast.BinOp) and isinstance(x.op, ast.Mult):
                        l, r = x.left, x.right
                        k = r if ("height" in norm(l) or "width" in norm(l) or "shape" in norm(l)) else l
                        ks.append(k)
            if len(ks) == 2 and norm(ks[0]) == norm(ks[1]):
                m = I.as_mono(I.eval(fr, ks[0]))
                if m is not None:
                    return img.scaled(m)
            return I.top(f"resize factor of `{short(node, 60)}` not recognised at {w}")
        if q in ("torch.nn.functional.pad",):
            img = a0
            pad = astq.deref(fr.fi.node, astq.call_arg(node, 1, "pad")) if fr.fi else None
            if isinstance(img, Geo) and isinstance(pad, ast.Tuple) and len(pad.elts) == 4:
                l, t = pad.elts[0], pad.elts[2]
                ok = astq.const_value(l) == 0 and astq.const_value(t) == 0
                I.oblig("R-pad", ok, f"F.pad{norm(pad)} in {self._caller(fr)}", f"the image is padded by `{norm(l)}` on the left / `{norm(t)}` on the top: pixel "
                        "coordinates shift while the keypoints do not", w)
                return img if ok else Mismatch((img,), f"left/top padding at {w}")
            return img if isinstance(img, (Geo, Top, Mismatch)) else Other("padded")
        if q == "kornia.geometry.transform.crop_and_resize":
            img = a0 if a0 is not None else kwargs.get("input")
            return self._crop(I, fr, img, kwargs.get("boxes", args[1] if len(args) > 1 else None), node, "crop_and_resize")
        if q == "kornia.augmentation.container.AugmentationSequential":
            return I.new_obj("kornia:AugSeq", {"data_keys": kwargs.get("data_keys", Other("default")), "site": Other(f"aug@{self._caller(fr)}")})
        if q in ("torch.full", "numpy.full", "torch.full_like", "numpy.full_like"):
            fv = kwargs.get("fill_value", args[1] if len(args) > 1 else None)
            if isinstance(fv, (Num, Geo)):
                return fv  # a tensor filled with a geometric / scale quantity carries that quantity
        if q in FILL_EXT:
            return Other("fill", fill=True)
        if q in ("torch.tensor", "torch.Tensor", "numpy.array", "torch.as_tensor") and a0 is not None:
            if isinstance(a0, Ref):
                return I.elem_of(a0)
            return a0 if not isinstance(a0, Const) else Other("tensor")
        if q in PASS_EXT:
            return a0 if a0 is not None and not isinstance(a0, Const) else Other(q.split(".")[-1])
        if q in JOIN_EXT:
            if a0 is None:
                return I.new_list(None) if q.startswith("builtins.") else Other("empty")
            if q.startswith("builtins."):
                if isinstance(a0, Ref) and isinstance(I.obj(a0), HList):
                    return I.new_list(I.obj(a0).elem)
                return I.new_list(I.elem_of(a0))
            return I.elem_of(a0)
        if q == "builtins.dict":
            if isinstance(a0, Ref) and isinstance(I.obj(a0), HDict):
                return I.new(I.obj(a0).copy())
            return I.new_dict(dict(kwargs))
        if q == "torch.where":
            if len(args) == 3:
                return join(args[1], args[2], "torch.where")
            return Other("indices")
        if q == "torch.topk":
            return Tup((a0 if a0 is not None else Other("vals"), Other("indices")))
        if q in ("torch.max", "torch.min") and a0 is not None and isinstance(a0, Geo):
            return Tup((a0, Other("indices")))
        if q == "numpy.savez_compressed":
            self.storage["npz"] = I.new_dict(dict(kwargs))
            return Const(None)
        if q == "numpy.load":
            st = self.storage.get("npz")
            if isinstance(st, Ref):
                return I.new(I.obj(st).copy())
            return I.top(f"np.load without a matching np.savez at {w}")
        if q == "omegaconf.OmegaConf.create":
            return a0 if a0 is not None else I.new_dict({})
        if q in ("sleap_io.load_slp",):
            return I.new_obj("sio:Labels", {})
        if q in ("sleap_io.load_video",):
            return I.new_obj("sio:Video", {})
        if q == "queue.Queue":
            return I.new_obj("queue:Queue", {})
        if q == "builtins.super":
            return Other("super")
        if q == "sleap_io.PredictedInstance.from_numpy":
            pts = kwargs.get("points", kwargs.get("points_data", a0))
            self.rout(I, fr, pts, f"sio.PredictedInstance.from_numpy(points=...) in {self._caller(fr)}", w)
            return Other("PredictedInstance")
        if q.startswith("kornia.augmentation"):
            return Other("aug")
        if q == "collections.defaultdict":
            return I.new_dict({}, None if not args else Other("default"))
        if q in ("builtins.len", "builtins.range", "builtins.isinstance", "builtins.print", "builtins.str", "builtins.min", "builtins.max", "builtins.round",
                 "builtins.hasattr", "builtins.bool", "builtins.sum", "builtins.any", "builtins.all", "builtins.type", "builtins.id"):
            return Other(q.split(".")[-1])
        if q == "builtins.getattr" and len(args) >= 2 and isinstance(args[1], Const):
            return I.getattr(fr, args[0], str(args[1].value), node)
        return Other(q.split(".")[-1])

    def rout(self, I, fr, pts: V, construct: str, w: str) -> None:
        if isinstance(pts, Ref):
            pts = I.elem_of(pts)
        if isinstance(pts, Mismatch):
            I.oblig(self.rout_rule, False, construct, f"the emitted coordinates have no single frame: {pts!r}", w, {"value": repr(pts)})
        elif isinstance(pts, Geo):
            ok = pts.mono.is_one() and not pts.offs
            what = []
            if not pts.mono.is_one():
                what.append(f"they are scaled by <{pts.mono}> relative to the image read from disk")
            if pts.offs:
                what.append(f"the crop origin(s) {sorted(l for l, _ in pts.offs)} are still subtracted")
            I.oblig(self.rout_rule, ok, construct + f": {pts!r}", "the emitted keypoints are not in original-image coordinates: " + "; ".join(what), w, {"value": repr(pts)})
        else:
            I.oblig(self.rout_rule, None, construct, f"frame of the emitted coordinates unknown ({pts!r})", w)

    # -------------------------------------------------------------- methods
    def method(self, I, fr, recv: V, name: str, args: List[V], kwargs: Dict[str, V], node: ast.Call) -> V:
        from .geom import OTHER_METHODS, PASS_METHODS

        w = I.where(fr, node)
        if isinstance(recv, (Top, Mismatch)):
            return recv
        if isinstance(recv, Ref):
            o = I.obj(recv)
            if isinstance(o, HDict):
                if name == "update":
                    new = o.copy()
                    for a in args:
                        if isinstance(a, Ref) and isinstance(I.obj(a), HDict):
                            new.cells.update(I.obj(a).cells)
                            if I.obj(a).default is not None:
                                new.default = join(new.default, I.obj(a).default)
                    new.cells.update(kwargs)
                    I.write(recv, new)
                    return Const(None)
                if name == "copy":
                    return I.new(o.copy())
                if name in ("items", "values"):
                    out = o.default
                    for v in o.cells.values():
                        out = join(out, v, "dict values")
                    return I.new_list(out if name == "values" else Tup((Other("key"), out if out is not None else Other("empty"))))
                if name == "keys":
                    return I.new_list(Other("key"))
                if name in ("get", "pop", "setdefault"):
                    k = args[0] if args else None
                    if isinstance(k, Const) and k.value in o.cells:
                        return o.cells[k.value]
                    return args[1] if len(args) > 1 else (o.default if o.default is not None else Const(None))
                return Other(name)
            if isinstance(o, HList):
                if name in ("append", "add", "appendleft"):
                    I.write(recv, HList(join(o.elem, args[0] if args else None, "list element")))
                    return Const(None)
                if name == "extend":
                    I.write(recv, HList(join(o.elem, I.elem_of(args[0]) if args else None, "list element")))
                    return Const(None)
                if name == "copy":
                    return I.new(o.copy())
                if name == "pop":
                    return o.elem if o.elem is not None else Other("empty")
                return Other(name)
            if isinstance(o, HObj):
                return self.obj_method(I, fr, recv, o, name, args, kwargs, node)
        if isinstance(recv, Cfg):
            if name == "get" and args and isinstance(args[0], Const):
                return Cfg(recv.path + (str(args[0].value),))
            return Other("cfg." + name)
        if isinstance(recv, (Geo, Num, Cms)):
            if name in PASS_METHODS:
                return recv
            if name in ("unbind", "split", "chunk"):
                return I.new_list(recv)
            if name in OTHER_METHODS or name.startswith("is"):
                return Other(name)
            I.assumed_passthrough[name] = I.assumed_passthrough.get(name, 0) + 1
            return recv
        if isinstance(recv, Shape):
            return Other("dim")
        if isinstance(recv, Other) and recv.tag == "super":
            if name == "__getitem__":
                st = self.storage.get("litdata")
                if isinstance(st, Ref):
                    return I.new(I.obj(st).copy())
                return I.top(f"streaming __getitem__ without a stored chunk sample at {w}")
            return Other("super." + name)
        if isinstance(recv, Tup) and name in ("index", "count"):
            return Other(name)
        return Other(name)

    # ------------------------------------------------------- special objects
    def obj_attr(self, I, ref: Ref, o: HObj, attr: str) -> Optional[V]:
        if o.cls == "sio:LabeledFrame":
            if attr == "image":
                return Geo("IMG")
            if attr in ("instances", "user_instances"):
                return I.new_list(I.new_obj("sio:Instance", {}))
            return Other(attr)
        if o.cls == "sio:Instance":
            return None if attr == "numpy" else Other(attr)
        if o.cls == "sio:Labels":
            if attr == "labeled_frames":
                return I.new_list(I.new_obj("sio:LabeledFrame", {}))
            return Other(attr)
        if o.cls == "sio:Video":
            return Other(attr)
        return None

    def iter_obj(self, I, ref: Ref, o: HObj) -> V:
        if o.cls == "sio:LabeledFrame":
            return I.new_obj("sio:Instance", {})
        if o.cls == "sio:Labels":
            return I.new_obj("sio:LabeledFrame", {})
        if "[*]" in o.attrs:
            return o.attrs["[*]"]
        return Other("elem")

    def obj_item(self, I, ref: Ref, o: HObj, key) -> V:
        if o.cls == "sio:Labels":
            return I.new_obj("sio:LabeledFrame", {})
        if o.cls == "sio:Video":
            return Geo("IMG")
        if "[*]" in o.attrs:
            return o.attrs["[*]"]
        return Other("item")

    def obj_method(self, I, fr, ref: Ref, o: HObj, name: str, args, kwargs, node) -> V:
        if o.cls == "sio:Instance" and name == "numpy":
            return Geo("PTS")
        if o.cls == "queue:Queue" and name == "get":
            return I.new_dict({"image": Geo("IMG"), "frame_idx": Other("frame_idx"), "video_idx": Other("video_idx"), "orig_size": Other("orig_size"),
                               "instances": Geo("PTS")})
        if name in ("eval", "to", "start", "join", "put", "close", "train", "cpu", "cuda"):
            return ref if name in ("eval", "to", "cpu", "cuda", "train") else Const(None)
        return Other(name)

    def call_obj(self, I, fr, ref: Ref, o: HObj, args, kwargs, node) -> Optional[V]:
        if o.cls == "kornia:AugSeq":
            w = I.where(fr, node)
            img = args[0] if args else None
            pts = args[1] if len(args) > 1 else None
            dk = o.attrs.get("data_keys")
            has_kp = isinstance(dk, Ref) and isinstance(I.obj(dk), HList)  # list literal ["input", "keypoints"]
            dk_node = None
            if isinstance(img, Geo) and isinstance(pts, Geo):
                ok = frame_of(img) == frame_of(pts)
                I.oblig("R-reg", ok, f"augmenter in {self._caller(fr)}: image {img!r} with keypoints {pts!r}",
                        f"the augmenter receives an image in frame {img!r} and keypoints in frame {pts!r}", w)
                a = Mono.sym(str(o.attrs.get("site").tag if isinstance(o.attrs.get("site"), Other) else "aug"))
                return Tup((Geo("IMG", img.mono * a, frozenset((l, m * a) for l, m in img.offs)), Geo("PTS", pts.mono * a, frozenset((l, m * a) for l, m in pts.offs))))
            return Tup((img if img is not None else I.top("aug image"), pts if pts is not None else I.top("aug points")))
        return None

    def call_other(self, I, fr, f: Other, args, kwargs, node) -> V:
        w = I.where(fr, node)
        if f.tag.startswith("model:"):
            img = args[0] if args else None
            if isinstance(img, Geo) and img.kind == "IMG":
                self.model_calls.append({"model": f.tag[6:], "image": img, "where": w, "caller": fr.fi.qualname if fr.fi else "?"})
                return Cms(img.mono, img.offs, f.tag[6:], "")
            return img if isinstance(img, (Top, Mismatch)) else I.top(f"network applied to {img!r} at {w}")
        geos = [a for a in args if isinstance(a, (Geo, Mismatch, Top))]
        if len(args) == 1 and geos:
            I.assumed_passthrough[f"call:{f.tag}"] = I.assumed_passthrough.get(f"call:{f.tag}", 0) + 1
            return geos[0]
        return Other("result")
