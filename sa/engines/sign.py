"""E4c — sign / unit-interval abstract evaluation of one expression tree.

Domain: BOT < {ZERO, POS} < NONNEG ;  {ZERO, NEG} < NONPOS ;  UNIT = [0,1] (a refinement of
NONNEG) ; TOP.  Values may additionally be NaN: NaN-ness is tracked by the taint engine, not
here - the sign statements read 'if the value is not NaN then ...'.
"""

from __future__ import annotations

import ast
from typing import Callable, Dict, List, Optional

from ..core import astq
from ..core.program import norm

ZERO, POS, NEG, NONNEG, NONPOS, UNIT, TOP, BOT = "ZERO", "POS", "NEG", "NONNEG", "NONPOS", "UNIT", "TOP", "BOT"
PUNIT = "PUNIT"  # (0, 1]: both strictly positive and within the unit interval


def is_pos(s: str) -> bool:
    return s in (POS, PUNIT)


def _ge0(s: str) -> bool:
    return s in (ZERO, POS, NONNEG, UNIT, PUNIT)


def _le0(s: str) -> bool:
    return s in (ZERO, NEG, NONPOS)


def join(a: Optional[str], b: Optional[str]) -> str:
    if a is None or a == BOT:
        return b or BOT
    if b is None or b == BOT or a == b:
        return a
    if {a, b} <= {ZERO, POS, NONNEG, UNIT, PUNIT}:
        if {a, b} <= {ZERO, UNIT, PUNIT}:
            return UNIT
        if {a, b} <= {POS, PUNIT}:
            return POS
        return NONNEG
    if {a, b} <= {ZERO, NEG, NONPOS}:
        return NONPOS
    return TOP


def neg(s: str) -> str:
    if s == BOT:
        return BOT
    return {ZERO: ZERO, POS: NEG, NEG: POS, NONNEG: NONPOS, NONPOS: NONNEG, UNIT: NONPOS, PUNIT: NEG}.get(s, TOP)


def add(a: str, b: str) -> str:
    if BOT in (a, b):
        return BOT
    if a == ZERO:
        return b
    if b == ZERO:
        return a
    if _ge0(a) and _ge0(b):
        return POS if (is_pos(a) or is_pos(b)) else NONNEG
    if _le0(a) and _le0(b):
        return NEG if NEG in (a, b) else NONPOS
    return TOP


def mul(a: str, b: str) -> str:
    if BOT in (a, b):
        return BOT
    if ZERO in (a, b):
        return ZERO
    if a == PUNIT and b == PUNIT:
        return PUNIT
    if a in (UNIT, PUNIT) and b in (UNIT, PUNIT):
        return UNIT
    if _ge0(a) and _ge0(b):
        return POS if (is_pos(a) and is_pos(b)) else NONNEG
    if _le0(a) and _le0(b):
        return POS if (a == NEG and b == NEG) else NONNEG
    if (_ge0(a) and _le0(b)) or (_le0(a) and _ge0(b)):
        return NEG if (NEG in (a, b) and (is_pos(a) or is_pos(b))) else NONPOS
    return TOP


def div(a: str, b: str) -> str:
    """a / b; division by something that may be zero keeps the sign (value may be inf/NaN: taint's job)."""
    if BOT in (a, b):
        return BOT
    if is_pos(b):
        return {UNIT: NONNEG, PUNIT: POS}.get(a, a)
    if b in (NEG,):
        return neg(a)
    if b in (NONNEG, UNIT):
        return {POS: NONNEG, PUNIT: NONNEG, UNIT: NONNEG}.get(a, a) if _ge0(a) or _le0(a) else TOP
    return TOP


def S_POS_IN(vs):
    return any(is_pos(v) for v in vs)


_PASS = {"reshape", "view", "unsqueeze", "squeeze", "expand_dims", "transpose", "permute", "to", "float", "astype", "clone", "copy",
         "expand_to_rank", "flatten", "detach", "numpy", "repeat", "tile", "broadcast_to", "asarray", "array", "tensor", "from_numpy"}
_REDUCE_KEEP = {"sum", "mean", "max", "min", "amax", "amin", "nansum", "nanmean", "nanmax", "nanmin", "prod", "maximum", "minimum", "stack", "cat",
                "concatenate", "where"}


class Sign:
    def __init__(self, fn: ast.AST, env: Dict[str, str], callee_sign: Optional[Callable[[ast.Call], Optional[str]]] = None):
        self.fn = fn
        self.env = dict(env)
        self.callee_sign = callee_sign
        self._busy: set = set()
        self._partial: Dict[str, str] = {}
        self.trace: List[str] = []

    def of_name(self, name: str) -> str:
        if name in self.env:
            return self.env[name]
        if name in self._busy:
            return self._partial.get(name, BOT)
        self._busy.add(name)
        result = BOT
        for _ in range(4):  # Kleene iteration for self-referential re-definitions (x = f(x))
            self._partial[name] = result
            new = self._of_name_once(name)
            if new == result:
                break
            result = new
        self._busy.discard(name)
        self._partial.pop(name, None)
        self.env[name] = result if result != BOT else TOP
        self.trace.append(f"{name}: {self.env[name]}")
        return self.env[name]

    def _of_name_once(self, name: str) -> str:
        out: Optional[str] = None
        defs = astq.assignments_to(self.fn, name)
        if not defs:
            out = TOP
        for st in defs:
            if isinstance(st, ast.Assign) and len(st.targets) == 1 and isinstance(st.targets[0], ast.Name):
                out = join(out, self.of(st.value))
            elif isinstance(st, ast.AugAssign) and isinstance(st.target, ast.Name):
                cur = out or TOP
                v = self.of(st.value)
                out = join(out, {ast.Add: add, ast.Mult: mul}.get(type(st.op), lambda a, b: TOP)(cur, v))
            elif isinstance(st, ast.Assign) and isinstance(st.targets[0], ast.Subscript):
                out = join(out, self.of(st.value))  # masked store x[m] = v widens x by v
            else:
                out = TOP
        # masked stores into the name
        for n in ast.walk(self.fn):
            if isinstance(n, ast.Assign) and isinstance(n.targets[0], ast.Subscript) and isinstance(n.targets[0].value, ast.Name) and n.targets[0].value.id == name:
                out = join(out, self.of(n.value))
        return out or BOT

    def of(self, e: ast.AST) -> str:
        if isinstance(e, ast.Constant):
            v = e.value
            if isinstance(v, bool):
                return UNIT
            if isinstance(v, (int, float)):
                return ZERO if v == 0 else (PUNIT if 0 < v <= 1 else (POS if v > 0 else NEG))
            return TOP
        if isinstance(e, ast.Name):
            return self.of_name(e.id)
        if isinstance(e, ast.Attribute):
            t = norm(e)
            if t in ("np.inf", "torch.inf", "numpy.inf", "math.inf"):
                return POS
            if t in self.env:
                return self.env[t]
            if e.attr in ("values", "T", "real"):
                return self.of(e.value)
            return TOP
        if isinstance(e, ast.UnaryOp):
            if isinstance(e.op, ast.USub):
                return neg(self.of(e.operand))
            if isinstance(e.op, ast.UAdd):
                return self.of(e.operand)
            if isinstance(e.op, (ast.Not, ast.Invert)):
                return UNIT
            return TOP
        if isinstance(e, ast.BinOp):
            if isinstance(e.op, ast.Pow):
                k = astq.const_value(e.right)
                if isinstance(k, int) and k % 2 == 0:
                    b = self.of(e.left)
                    return POS if b in (POS, NEG) else (b if b in (UNIT, PUNIT) else NONNEG)
                b = self.of(e.left)
                return b if _ge0(b) else TOP
            a, b = self.of(e.left), self.of(e.right)
            if isinstance(e.op, ast.Add):
                return add(a, b)
            if isinstance(e.op, ast.Sub):
                return add(a, neg(b))
            if isinstance(e.op, ast.Mult):
                return mul(a, b)
            if isinstance(e.op, (ast.Div, ast.FloorDiv)):
                return div(a, b)
            if isinstance(e.op, ast.MatMult):
                return TOP
            return TOP
        if isinstance(e, ast.Subscript):
            return self.of(e.value)
        if isinstance(e, ast.IfExp):
            return join(self.of(e.body), self.of(e.orelse))
        if isinstance(e, (ast.Tuple, ast.List)):
            out = None
            for x in e.elts:
                out = join(out, self.of(x))
            return out or TOP
        if isinstance(e, ast.Compare):
            return UNIT
        if isinstance(e, ast.Call):
            if self.callee_sign is not None:
                r = self.callee_sign(e)
                if r is not None:
                    return r
            f = e.func
            name = f.attr if isinstance(f, ast.Attribute) else (f.id if isinstance(f, ast.Name) else "")
            recv = f.value if isinstance(f, ast.Attribute) and not norm(f.value) in ("np", "torch", "numpy", "F", "math", "K") else None
            args = list(e.args)
            if name == "exp":
                a = self.of(recv if recv is not None else args[0])
                return BOT if a == BOT else (UNIT if _le0(a) else POS)
            if name in ("square", "abs", "norm", "sqrt"):
                return NONNEG
            if name in ("isnan", "isinf", "any", "all", "ones", "ones_like", "sigmoid"):
                return UNIT
            if name in ("zeros", "zeros_like"):
                return ZERO
            if name == "spacing":
                return POS
            if name in ("full", "full_like"):
                fill = args[1] if len(args) > 1 else next((k.value for k in e.keywords if k.arg == "fill_value"), None)
                return self.of(fill) if fill is not None else TOP
            if name == "nan_to_num":
                base = self.of(recv if recv is not None else args[0])
                vals = [base]
                for k in e.keywords:
                    if k.arg in ("nan", "posinf", "neginf"):
                        vals.append(self.of(k.value))
                out = None
                for v in vals:
                    out = join(out, v)
                if not any(k.arg == "nan" for k in e.keywords):
                    out = join(out, ZERO)  # default nan=0.0
                return out or BOT
            if name in ("clamp", "clip"):
                lo = next((k.value for k in e.keywords if k.arg in ("min", "a_min")), args[1] if len(args) > 1 and recv is None else (args[0] if recv is not None and args else None))
                hi = next((k.value for k in e.keywords if k.arg in ("max", "a_max")), None)
                base = self.of(recv if recv is not None else args[0])
                if lo is not None and astq.const_value(lo) == 0 and hi is not None and astq.const_value(hi) == 1:
                    return UNIT
                if lo is not None and isinstance(astq.const_value(lo), (int, float)) and astq.const_value(lo) >= 0:
                    return NONNEG if base != UNIT else UNIT
                return base
            if name in _PASS:
                return self.of(recv if recv is not None else args[0]) if (recv is not None or args) else TOP
            if name == "maximum" and len(args) >= 2:
                vs = [self.of(a) for a in args[:2]]
                if S_POS_IN(vs):
                    return POS
            if name in _REDUCE_KEEP:
                xs = ([recv] if recv is not None else []) + [a for a in args if not isinstance(a, ast.Constant)]
                if name == "where" and len(args) == 3:
                    xs = args[1:]
                out = None
                for x in xs:
                    out = join(out, self.of(x))
                if name in ("sum", "nansum", "prod") and out in (UNIT, PUNIT):
                    return NONNEG if out == UNIT else POS
                return out or TOP
            if name in ("float", "int", "len"):
                return NONNEG if name == "len" else (self.of(args[0]) if args else TOP)
            return TOP
        return TOP


def selftest_sign():
    import textwrap

    src = textwrap.dedent(
        """
        def f(x, y, xv, yv, sigma):
            cm = torch.exp(-((xv - x) ** 2 + (yv - y) ** 2) / (2 * sigma**2))
            cm = torch.nan_to_num(cm)
            bad = torch.exp(((xv - x) ** 2) / (2 * sigma**2))
            acc = torch.zeros((3, 3))
            acc = torch.maximum(acc, cm)
            return cm
        """
    )
    fn = ast.parse(src).body[0]
    s = Sign(fn, {"sigma": POS})
    assert s.of_name("cm") == UNIT, s.of_name("cm")
    assert s.of_name("bad") == POS
    assert s.of_name("acc") == UNIT, s.of_name("acc")
